(* C14 — ill-formed directives are rejected at generation time; well-formed ones accepted.

   Full statement, proved (C14_accepts_iff_wellformed):   forall f, accepts f = true <-> WellFormed f
   for the executable model `accepts` of compileFlow's checks (ValidateModel: duplicate Params,
   output-less tasks and Invoke, duplicate providers, unused outputs, the worklist provider
   walk of validateFuncs with its fuel, the depth-first cycle search) and the declarative
   rules of the property (every consumed type has exactly one provider, no dependency cycle
   through tasks or predicates at any distance, every Params value and every task output is
   consumed, a task has no outputs exactly when it is marked Invoke). Besides the check-by-check
   equivalences below, the proof (ValidateWalk) shows that the walk's fuel always suffices
   (a potential that decreases by one per step), that its invariant makes an empty result mean
   "everything reachable from the Results and the Invoke sentinels has a source", and that in a
   flow without cycles and without unused outputs every function leads forward to a Result or
   an Invoke task (pigeonhole), so that "reachable" is "everything consumed".
   Types are atoms: go/types identity and assignability are Go library code; the Slice/Map
   element checks are C14_parallel / C14_assign_refuted. Tie: accept/reject, diagnostic
   classes and presence of the output file of the real cff against the model and against the
   independent boolean rules wf_b on every generated flow and mutation, one flow per file. *)
From CffVerif Require Import ValidateModel ValidateProofs ValidateWalk SignatureModel SignatureProofs ParSigModel ParSigProofs.

Theorem C14_dup_params : forall f, chk_dup_param f = false <-> NoDup (map TUser (fparams f)).
Proof. exact chk_dup_param_spec. Qed.
Print Assumptions C14_dup_params.

Theorem C14_invoke :
  forall f, chk_no_output f = false /\ chk_invoke_outputs f = false <->
            forall t, In t (ftasks f) -> (touts t = [] <-> tinvoke t = true).
Proof. exact chk_invoke_spec. Qed.
Print Assumptions C14_invoke.

Theorem C14_dup_provider : forall f, chk_dup_provider f = false <-> NoDup (flat_map fouts (funcs f)).
Proof. exact chk_dup_provider_spec. Qed.
Print Assumptions C14_dup_provider.

Theorem C14_unused_output :
  forall f, chk_unused_output f = false <-> forall o, In o (flat_map fouts (funcs f)) -> In o (consumed f).
Proof. exact chk_unused_output_spec. Qed.
Print Assumptions C14_unused_output.

(* the cycle search finds a cycle exactly when one exists - whatever its length, and
   whether it runs through task parameters or through predicate parameters *)
Theorem C14_cycle : forall f, chk_cycle f = false <-> forall t, ~ needs_plus f t t.
Proof. exact chk_cycle_spec. Qed.
Print Assumptions C14_cycle.

(* the whole validator: accepted exactly when well-formed *)
Theorem C14_accepts_iff_wellformed : forall f, accepts f = true <-> WellFormed f.
Proof. exact accepts_iff_wellformed. Qed.
Print Assumptions C14_accepts_iff_wellformed.

(* the provider walk never runs out of fuel: it always ends with an empty worklist *)
Theorem C14_walk_terminates :
  forall f, exists visited, WInv f [] visited (snd (walk_result f)) (fst (walk_result f)).
Proof. exact walk_terminates. Qed.
Print Assumptions C14_walk_terminates.

(* every accepted flow satisfies the rules that do not involve the provider walk *)
Theorem C14_sound_partial :
  forall f, accepts f = true ->
    NoDup (map TUser (fparams f)) /\ NoDup (flat_map fouts (funcs f)) /\
    (forall t, ~ needs_plus f t t) /\
    (forall o, In o (flat_map fouts (funcs f)) -> In o (consumed f)) /\
    (forall t, In t (ftasks f) -> (touts t = [] <-> tinvoke t = true)).
Proof.
  intros f H. unfold accepts, validate in H.
  destruct (chk_dup_param f) eqn:E1; [discriminate|].
  destruct (chk_no_output f) eqn:E2; [discriminate|].
  destruct (chk_invoke_outputs f) eqn:E3; [discriminate|].
  destruct (chk_dup_provider f) eqn:E4; [discriminate|].
  destruct (chk_unused_output f) eqn:E5; [discriminate|].
  destruct (chk_no_provider f) eqn:E6; [discriminate|].
  destruct (chk_unused_input f) eqn:E7; [discriminate|].
  destruct (chk_cycle f) eqn:E8; [discriminate|].
  repeat split.
  - now apply chk_dup_param_spec.
  - now apply chk_dup_provider_spec.
  - now apply chk_cycle_spec.
  - now apply chk_unused_output_spec.
  - apply (proj1 (chk_invoke_spec f) (conj E2 E3)); assumption.
  - apply (proj1 (chk_invoke_spec f) (conj E2 E3)); assumption.
Qed.
Print Assumptions C14_sound_partial.

(* Parallel: a Slice/Map is accepted exactly when the element (key, value) types are
   assignable to the function's parameters - by definition of the fixed check; the check
   as it was before fix 6eedc36 is refuted on any asymmetric pair *)
Theorem C14_parallel :
  forall assignable e p, accept_slice assignable e p = assignable e p.
Proof. reflexivity. Qed.
Theorem C14_assign_refuted :
  exists assignable e p, accept_slice_reversed assignable e p <> assignable e p.
Proof. exists (fun v t => Nat.leb v t), 0, 1. discriminate. Qed.
Print Assumptions C14_assign_refuted.

(* non-vacuity: a cycle through a predicate at distance 2, found; an acyclic flow, accepted *)
Example C14_example_cycle :
  let f := {| fparams := [0]; fresults := [2];
              ftasks := [ {| tins := [0]; touts := [1]; tpred := Some [3]; tinvoke := false |};
                          {| tins := [1]; touts := [2]; tpred := None; tinvoke := false |};
                          {| tins := [2]; touts := [3]; tpred := None; tinvoke := false |} ] |} in
  chk_cycle f = true /\ wf_b f = false.
Proof. split; reflexivity. Qed.
Example C14_example_ok :
  let f := {| fparams := [0]; fresults := [2];
              ftasks := [ {| tins := [1]; touts := [2]; tpred := Some [0]; tinvoke := false |};
                          {| tins := [0]; touts := [1]; tpred := None; tinvoke := false |};
                          {| tins := [2]; touts := []; tpred := None; tinvoke := true |} ] |} in
  accepts f = true /\ wf_b f = true.
Proof. split; reflexivity. Qed.

(* "... and uses supported signatures": how the generator reads a task's or predicate's
   function (compileFunction, compilePredicate, the FallbackWith/Invoke rules). A signature is
   accepted exactly when it is not variadic, context.Context occurs at most as the first
   parameter and error at most as the last result; for every accepted one the generated call
   fn(ctx?, inputs...) and the bindings outputs..., err? := are the function's parameter and
   result lists, so the generated code type-checks against the user's function. *)
Theorem C14_supported_signatures :
  forall s, (exists f, compile_function s = inl f) <-> supported s.
Proof. exact accepts_iff_supported. Qed.
Print Assumptions C14_supported_signatures.

Theorem C14_refusal_reasons :
  forall s d, compile_function s = inr d ->
    (d = SVariadic /\ sg_variadic s = true) \/
    (d = SCtxPos /\ exists j, j <> 0 /\ nth_error (sg_params s) j = Some GCtx) \/
    (d = SErrPos /\ exists j, S j <> length (sg_results s) /\ nth_error (sg_results s) j = Some GErr).
Proof. exact refusal_reasons. Qed.
Print Assumptions C14_refusal_reasons.

Theorem C14_call_matches_signature :
  forall s f, compile_function s = inl f ->
    call_args f = sg_params s /\ call_binds f = sg_results s /\
    existsb is_ctx (cf_inputs f) = false /\ existsb is_err (cf_outputs f) = false.
Proof. exact call_matches_signature. Qed.
Print Assumptions C14_call_matches_signature.

Theorem C14_predicate_shape :
  forall s f, compile_predicate s = inl f ->
    cf_outputs f = [GBool] /\ cf_haserr f = false /\ call_args f = sg_params s /\ sg_results s = [GBool].
Proof. exact predicate_shape. Qed.
Print Assumptions C14_predicate_shape.

Theorem C14_accepted_task :
  forall t, compile_task t = [] ->
    exists f, compile_function (td_fn t) = inl f /\
      (forall k, td_fallback t = Some k -> k = length (cf_outputs f) /\ cf_haserr f = true) /\
      (forall ps, td_pred t = Some ps -> exists pf, compile_predicate ps = inl pf) /\
      (td_invoke t = true <-> cf_outputs f = []).
Proof. exact accepted_task. Qed.
Print Assumptions C14_accepted_task.

(* cff.Parallel (compile_parallel.go; ParSigModel): the functions of every accepted Parallel
   have the shapes the generated calls need - a task or End function takes at most the
   context and returns at most an error; a slice function is (ctx?, index int?, element) and a
   map function (ctx?, key, value), with the collection's types assignable to the parameters;
   at most one End hook per collection, none under ContinueOnError. *)
Theorem C14_parallel_task_shape :
  forall s f, compile_par_task s = inl f ->
    compile_function s = inl f /\ sg_params s = ctx_part f /\ sg_results s = err_part f.
Proof. exact par_task_shape. Qed.
Print Assumptions C14_parallel_task_shape.

Theorem C14_parallel_slice_shape :
  forall assignable fn elem ends t ds, compile_slice assignable fn elem ends = (Some t, ds) ->
    compile_function fn = inl (sl_fn t) /\
    (exists p, sg_params fn = slice_call_args t p /\ assignable elem p = true) /\
    sg_results fn = err_part (sl_fn t) /\
    (forall e, sl_end t = Some e -> exists x, In x ends /\ compile_end x = inl e).
Proof. exact slice_shape. Qed.
Print Assumptions C14_parallel_slice_shape.

Theorem C14_parallel_map_shape :
  forall assignable fn key val ends t ds, compile_map assignable fn key val ends = (Some t, ds) ->
    compile_function fn = inl (mp_fn t) /\
    (exists k v, sg_params fn = ctx_part (mp_fn t) ++ [k; v] /\ assignable key k = true /\ assignable val v = true) /\
    sg_results fn = err_part (mp_fn t) /\
    (forall e, mp_end t = Some e -> exists x, In x ends /\ compile_end x = inl e).
Proof. exact map_shape. Qed.
Print Assumptions C14_parallel_map_shape.

Theorem C14_parallel_accepted :
  forall assignable coe items, compile_parallel assignable coe items = [] ->
    forall it, In it items ->
      match it with
      | ITask s => exists f, compile_par_task s = inl f
      | ISlice fn e ends => exists t, compile_slice assignable fn e ends = (Some t, []) /\ length ends <= 1 /\ (coe = true -> sl_end t = None)
      | IMap fn k v ends => exists t, compile_map assignable fn k v ends = (Some t, []) /\ length ends <= 1 /\ (coe = true -> mp_end t = None)
      end.
Proof. exact accepted_parallel. Qed.
Print Assumptions C14_parallel_accepted.
