(* C14 — ill-formed directives are rejected at generation time; well-formed ones accepted.

   Full statement (the target):   forall f, accepts f = true <-> WellFormed f.
   Proved here: the equivalence check by check for duplicate Params, output-less tasks and
   Invoke, duplicate providers, unused outputs, and dependency cycles (through tasks and
   predicates, at any distance); hence C14_sound_partial. The two checks made by the provider
   walk of validateFuncs ("no provider found", "unused input") are modelled and run against
   the real tool and against the independent boolean rules wf_b on every generated flow, but
   their equivalence with the declarative rules is not proved yet: partial. *)
From CffVerif Require Import ValidateModel ValidateProofs.

Theorem C14_dup_params : forall f, chk_dup_param f = false <-> NoDup (map TUser (fparams f)).
Proof. exact chk_dup_param_spec. Qed.
Print Assumptions C14_dup_params.

Theorem C14_invoke :
  forall f, chk_no_output f = false /\ chk_invoke_outputs f = false <->
            forall t, In t (ftasks f) -> (touts t = [] <-> tinvoke t = true).
Proof. exact chk_invoke_spec. Qed.
Print Assumptions C14_invoke.

Theorem C14_dup_provider : forall f, chk_dup_provider f = false <-> NoDup (flat_map fouts (funcs f)).
Proof. exact chk_dup_provider_spec. Qed.
Print Assumptions C14_dup_provider.

Theorem C14_unused_output :
  forall f, chk_unused_output f = false <-> forall o, In o (flat_map fouts (funcs f)) -> In o (consumed f).
Proof. exact chk_unused_output_spec. Qed.
Print Assumptions C14_unused_output.

(* the cycle search finds a cycle exactly when one exists - whatever its length, and
   whether it runs through task parameters or through predicate parameters *)
Theorem C14_cycle : forall f, chk_cycle f = false <-> forall t, ~ needs_plus f t t.
Proof. exact chk_cycle_spec. Qed.
Print Assumptions C14_cycle.

(* every accepted flow satisfies the rules that do not involve the provider walk *)
Theorem C14_sound_partial :
  forall f, accepts f = true ->
    NoDup (map TUser (fparams f)) /\ NoDup (flat_map fouts (funcs f)) /\
    (forall t, ~ needs_plus f t t) /\
    (forall o, In o (flat_map fouts (funcs f)) -> In o (consumed f)) /\
    (forall t, In t (ftasks f) -> (touts t = [] <-> tinvoke t = true)).
Proof.
  intros f H. unfold accepts, validate in H.
  destruct (chk_dup_param f) eqn:E1; [discriminate|].
  destruct (chk_no_output f) eqn:E2; [discriminate|].
  destruct (chk_invoke_outputs f) eqn:E3; [discriminate|].
  destruct (chk_dup_provider f) eqn:E4; [discriminate|].
  destruct (chk_unused_output f) eqn:E5; [discriminate|].
  destruct (chk_no_provider f) eqn:E6; [discriminate|].
  destruct (chk_unused_input f) eqn:E7; [discriminate|].
  destruct (chk_cycle f) eqn:E8; [discriminate|].
  repeat split.
  - now apply chk_dup_param_spec.
  - now apply chk_dup_provider_spec.
  - now apply chk_cycle_spec.
  - now apply chk_unused_output_spec.
  - apply (proj1 (chk_invoke_spec f) (conj E2 E3)); assumption.
  - apply (proj1 (chk_invoke_spec f) (conj E2 E3)); assumption.
Qed.
Print Assumptions C14_sound_partial.

(* Parallel: a Slice/Map is accepted exactly when the element (key, value) types are
   assignable to the function's parameters - by definition of the fixed check; the check
   as it was before fix 6eedc36 is refuted on any asymmetric pair *)
Theorem C14_parallel :
  forall assignable e p, accept_slice assignable e p = assignable e p.
Proof. reflexivity. Qed.
Theorem C14_assign_refuted :
  exists assignable e p, accept_slice_reversed assignable e p <> assignable e p.
Proof. exists (fun v t => Nat.leb v t), 0, 1. discriminate. Qed.
Print Assumptions C14_assign_refuted.

(* non-vacuity: a cycle through a predicate at distance 2, found; an acyclic flow, accepted *)
Example C14_example_cycle :
  let f := {| fparams := [0]; fresults := [2];
              ftasks := [ {| tins := [0]; touts := [1]; tpred := Some [3]; tinvoke := false |};
                          {| tins := [1]; touts := [2]; tpred := None; tinvoke := false |};
                          {| tins := [2]; touts := [3]; tpred := None; tinvoke := false |} ] |} in
  chk_cycle f = true /\ wf_b f = false.
Proof. split; reflexivity. Qed.
Example C14_example_ok :
  let f := {| fparams := [0]; fresults := [2];
              ftasks := [ {| tins := [1]; touts := [2]; tpred := Some [0]; tinvoke := false |};
                          {| tins := [0]; touts := [1]; tpred := None; tinvoke := false |};
                          {| tins := [2]; touts := []; tpred := None; tinvoke := true |} ] |} in
  accepts f = true /\ wf_b f = true.
Proof. split; reflexivity. Qed.
