(* C14 — ill-formed directives are rejected at generation time; well-formed ones accepted. *)
From CffVerif Require Import ValidateModel ValidateProofs.
