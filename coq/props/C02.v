(* C02 — Generated Flow code computes the dataflow the directive describes.

   The generated program is modelled operationally (FlowOpModel): one job per task and per
   predicate function with the Dependencies the generator prints, communicating through
   one variable per type and one flag per predicate. `reach` are the executions the
   scheduler can produce: any order in which every job runs at most once and only after
   each of its dependencies returned nil - exactly what Layer 0 proves of the scheduler
   (C01_order_once, C07_downstream) for every DAG, concurrency limit and interleaving.

   Proved for every flow with unique providers - which every flow accepted by the validator
   model of C14 has (C02_accepted_flows_qualify; unique_providers_b is also re-evaluated on
   every generated flow) -, every scenario
   (what each user function does) and every such execution:
     - a job does the same thing - same calls with the same arguments, same assignments,
       same result - in every execution in which it runs (C02_schedule_independent), so
       the outcome does not depend on the concurrency limit or the schedule;
     - every argument a task function receives is the value its unique provider assigned,
       already assigned when it is read (C02_arguments);
     - every function is called at most once (C02_once), and in an execution where every
       job returned nil the Results targets hold the same provider values whatever the
       order (C02_results);
     - the canonical order the extracted model runs is one of these executions.
   Independence of the *listing order* of the tasks is proved at the end of this file
   (C02_listing_order_independent, via FlowListing) and also exercised (the generator
   shuffles the tasks). The flow semantics FlowSemModel is proved to be exactly what the
   generated jobs do (C02_semantics_is_the_generated_code), and `reach` is discharged
   against the scheduler model (C02_every_scheduler_run).
   Tie to the code: (1) the Dependencies lists parsed from every generated *_gen.go file
   must equal jdeps; (2) every execution of the generated programs must make the calls,
   return the error and leave the results the model computes. *)
From CffVerif Require Import FlowOpModel FlowOpProofs ValidateModel FlowAdequacy FlowComplete FlowListing FlowBridge.
From CffVerif Require TopoModel TopoProofs.

Theorem C02_schedule_independent :
  forall f sc, unique_providers f ->
  forall e1 e2, reach f sc e1 -> reach f sc e2 ->
  forall x ef1 ef2, In (x, ef1) (xlog e1) -> In (x, ef2) (xlog e2) -> ef1 = ef2.
Proof. exact confluence. Qed.
Print Assumptions C02_schedule_independent.

Theorem C02_arguments :
  forall f sc, unique_providers f ->
  forall e k ef, reach f sc e -> In (FT k, ef) (xlog e) ->
  forall c, In c (je_calls ef) ->
    c = (false, k, map (slot (xstore e)) (kins (taskof f k))) /\
    forall t, In t (kins (taskof f k)) ->
      match gprov f t with
      | Some (kp, i) =>
          exists efp vs, In (FT kp, efp) (xlog e) /\ je_res efp = JOk /\ je_outs efp = Some vs /\
                         slot (xstore e) t = write_outs (fun _ => None) (kouts (taskof f kp)) vs t /\
                         slot (xstore e) t <> None
      | None => slot (xstore e) t = slot (store0 f) t
      end.
Proof. exact args_from_providers. Qed.
Print Assumptions C02_arguments.

Theorem C02_once :
  forall f sc, unique_providers f -> forall e, reach f sc e -> NoDup (ran e).
Proof. exact runs_once. Qed.
Print Assumptions C02_once.

Theorem C02_results :
  forall f sc, unique_providers f ->
  forall e1 e2, reach f sc e1 -> reach f sc e2 -> complete f e1 = true -> complete f e2 = true ->
    map (slot (xstore e1)) (gresults f) = map (slot (xstore e2)) (gresults f).
Proof. exact results_confluent. Qed.
Print Assumptions C02_results.

Theorem C02_variable_independent :
  forall f sc, unique_providers f ->
  forall e1 e2, reach f sc e1 -> reach f sc e2 ->
  forall t, (forall k i, gprov f t = Some (k, i) -> In (FT k) (xok e1) /\ In (FT k) (xok e2)) ->
    slot (xstore e1) t = slot (xstore e2) t.
Proof. exact slot_confluent. Qed.
Print Assumptions C02_variable_independent.

(* "for every Flow that cff accepts": a flow accepted by the validator model of C14 satisfies
   both hypotheses used in this file - unique providers, and a source for every consumed
   type - whatever the decoration (FallbackWith, error results, Invoke) of its tasks *)
Theorem C02_accepted_flows_qualify :
  forall (f : ValidateModel.flow) (g : fflow), accepts f = true ->
    gparams g = fparams f -> gresults g = fresults f ->
    map shape (gtasks g) = map shape (gtasks (to_fflow f)) ->
    unique_providers g /\ all_provided_b g = true.
Proof. exact accepted_qualifies. Qed.
Print Assumptions C02_accepted_flows_qualify.

(* the task function is called only after its predicate returned true *)
Theorem C02_predicate_gate :
  forall f sc, unique_providers f ->
  forall e k ef, reach f sc e -> In (FT k, ef) (xlog e) -> je_calls ef <> [] ->
    kpred (taskof f k) = None \/
    (exists efp, In (FP k, efp) (xlog e) /\ je_flag efp = true /\ sc_pred sc k = PTRUE).
Proof. exact task_called_pred_true. Qed.
Print Assumptions C02_predicate_gate.

Theorem C02_valid_schedules_reach :
  forall f sc sch, valid f sc sch = true -> reach f sc (run f sc sch).
Proof. exact valid_run_reach. Qed.
Print Assumptions C02_valid_schedules_reach.

Theorem C02_canonical_valid : forall f sc, valid f sc (canonical f sc) = true.
Proof. exact canonical_valid. Qed.
Print Assumptions C02_canonical_valid.

(* the flow semantics (FlowSemModel: "each parameter receives the value returned by the unique
   provider of its type; Results hold what their providers returned") is what the generated
   code computes on every schedule: whenever it yields the Results values, every execution in
   which all jobs returned nil leaves exactly those values *)
Theorem C02_results_are_the_dataflow :
  forall f sc, unique_providers f -> forall e vs, reach f sc e -> complete f e = true ->
    result_values f sc = Some vs -> map (slot (xstore e)) (gresults f) = map Some vs.
Proof. exact results_sound. Qed.
Print Assumptions C02_results_are_the_dataflow.

Theorem C02_semantics_sound :
  forall f sc, unique_providers f -> forall n, val_sound f sc n /\ res_sound f sc n /\ pred_sound f sc n.
Proof. exact sem_sound. Qed.
Print Assumptions C02_semantics_sound.

(* and conversely the semantics always has an answer: for a flow in which every consumed type
   has a provider or is a Params type (all_provided_b: what "no provider found" of
   compileFlow guarantees; re-evaluated on every generated flow), the semantics at its fuel
   assigns an outcome - never "blocked" - to every job that runs in any execution, and that
   outcome is the job's: same result, same values assigned, same call with the same
   arguments. The denotational reading of the directive IS what the generated code does,
   on all schedules. *)
Theorem C02_semantics_is_the_generated_code :
  forall f sc, unique_providers f -> all_provided_b f = true ->
  forall e k ef, reach f sc e -> In (FT k, ef) (xlog e) ->
    match tresult f sc (fuel_of f) k with
    | RBlocked _ => False
    | ROuts outs _ tc => je_res ef = JOk /\ je_outs ef = Some outs /\ je_calls ef = call_of k tc
    | RFail er _ tc => je_res ef = JFail er /\ je_calls ef = call_of k tc
    end.
Proof. exact semantics_is_the_generated_code. Qed.
Print Assumptions C02_semantics_is_the_generated_code.

(* ---- the order in which the tasks are listed does not matter: for two listings of the same
   tasks (p: position in the second listing, q: back), the semantics of the second is the
   semantics of the first with task indices renamed by p - for every type, hence for the
   Results, and for every failure. By C02_semantics_is_the_generated_code this is a statement
   about the generated code of both listings on all schedules. *)
Theorem C02_listing_order_independent :
  forall f f' p q,
    length (gtasks f') = length (gtasks f) ->
    (forall k, k < length (gtasks f) -> p k < length (gtasks f') /\ taskof f' (p k) = taskof f k /\ q (p k) = k) ->
    (forall k', k' < length (gtasks f') -> q k' < length (gtasks f) /\ p (q k') = k') ->
    gparams f' = gparams f -> gresults f' = gresults f ->
    unique_providers f -> unique_providers f' ->
    forall sc,
      result_values f' (sc' q sc) = option_map (map (rename p)) (result_values f sc) /\
      (forall n t, tval f' (sc' q sc) n t = option_map (rename p) (tval f sc n t)) /\
      (forall k e pc tc, k < length (gtasks f) -> tresult f sc (fuel_of f) k = RFail e pc tc ->
         tresult f' (sc' q sc) (fuel_of f') (p k) = RFail (rename_err p e) (omap p pc) (omap p tc)).
Proof.
  intros f f' p q Hl Hp Hq Hpa Hre U U' sc. split; [|split].
  - apply (results_listing_independent f f' p q); assumption.
  - intros n t. edestruct (listing_order f f' p q) as [Lv _]; eauto.
  - intros k e pc tc. apply (failure_listing_independent f f' p q); assumption.
Qed.
Print Assumptions C02_listing_order_independent.

(* ---- the order in which the generated code declares and enqueues the jobs (toposort of
   internal/graph.go, a depth-first post-order; TopoModel): for every acyclic dependency
   function (some rank decreases along every edge) it yields every node exactly once, each
   after all of its dependencies - so every `Dependencies: []{taskM.job}` refers to a job
   already enqueued, which is also what the scheduler model requires of a configuration
   (wf_cfg). Tie: differential run of the real toposort on generated graphs. *)
Theorem C02_enqueue_order :
  forall (deps : nat -> list nat) (count : nat) (rk : nat -> nat),
    (forall n d, In d (deps n) -> rk d < rk n) ->
    (forall n d, n < count -> In d (deps n) -> d < count) ->
    forall fuel, (forall n, n < count -> rk n < fuel) ->
      let r := TopoModel.toposort deps fuel count in
      NoDup r /\ (forall n, In n r <-> n < count) /\ TopoProofs.ordered deps r.
Proof. exact TopoProofs.toposort_valid. Qed.
Print Assumptions C02_enqueue_order.

(* ---- composition with Layer 0 (SchedFlowCompose). `reach` above is an assumption about the
   scheduler; this theorem discharges it: for every configuration of the scheduler model
   whose job graph contains the Dependencies of the generated jobs (what the harness compares
   on every generated function), every run - any number of workers, both error modes, any
   interleaving, cancellations, Goexit - in which each job reports to the scheduler what its
   run closure did, read in the order in which the jobs end, is such an execution. Every
   theorem of this file therefore holds on every schedule the scheduler can produce. *)
From CffVerif Require SchedModel SchedFlowCompose.

Theorem C02_every_scheduler_run :
  forall (c : SchedModel.cfg) (f : fflow) (sc : scenario) (jobof : nat -> option fid),
    (forall j x, jobof j = Some x -> In x (all_jobs f)) ->
    (forall i j x, jobof i = Some x -> jobof j = Some x -> i = j) ->
    (forall j x y, jobof j = Some x -> In y (jdeps f x) ->
       exists d, In d (SchedModel.jdeps (SchedModel.spec c j)) /\ jobof d = Some y) ->
    forall acts s, SchedModel.wf_cfg c -> SchedModel.run c (SchedModel.init c) acts = Some s ->
      SchedFlowCompose.consistent f sc jobof (SchedModel.log s) ->
      reach f sc (SchedFlowCompose.exec_of f sc jobof (SchedModel.log s)).
Proof. exact SchedFlowCompose.scheduler_runs_are_flow_executions. Qed.
Print Assumptions C02_every_scheduler_run.

(* non-vacuity: a diamond with a predicate, two different valid schedules, same outcome *)
Definition ex_flow : fflow :=
  {| gparams := [0]; gresults := [3];
     gtasks := [ {| kins := [0]; kouts := [1]; kpred := None; kinvoke := false; kfallback := false; khaserr := false |};
                 {| kins := [0]; kouts := [2]; kpred := Some [1]; kinvoke := false; kfallback := false; khaserr := false |};
                 {| kins := [1; 2]; kouts := [3]; kpred := None; kinvoke := false; kfallback := false; khaserr := true |} ] |}.
Definition ex_sc : scenario := {| sc_task := fun _ => OOK; sc_pred := fun _ => PTRUE |}.

Definition ex_flow' : fflow :=
  {| gparams := [0]; gresults := [3];
     gtasks := [ nth 2 (gtasks ex_flow) ktask0; nth 0 (gtasks ex_flow) ktask0; nth 1 (gtasks ex_flow) ktask0 ] |}.
Definition ex_p (k : nat) := match k with 0 => 1 | 1 => 2 | _ => 0 end.
Definition ex_q (k : nat) := match k with 0 => 2 | 1 => 0 | _ => 1 end.

Example C02_listing_witness :
  unique_providers_b ex_flow' = true /\
  (forall k, k < 3 -> ex_p k < 3 /\ taskof ex_flow' (ex_p k) = taskof ex_flow k /\ ex_q (ex_p k) = k) /\
  result_values ex_flow' (sc' ex_q ex_sc) = option_map (map (rename ex_p)) (result_values ex_flow ex_sc) /\
  result_values ex_flow' (sc' ex_q ex_sc) = Some [TmOut 0 0 [TmOut 1 0 [TmParam 0]; TmOut 2 0 [TmParam 0]]].
Proof.
  split; [reflexivity|]. split; [|split; reflexivity].
  intros k Hk. destruct k as [|[|[|k]]]; try lia; repeat split; cbn; lia.
Qed.

Example C02_witness :
  unique_providers_b ex_flow = true /\ all_provided_b ex_flow = true /\
  valid ex_flow ex_sc [FT 0; FP 1; FT 1; FT 2] = true /\
  valid ex_flow ex_sc (canonical ex_flow ex_sc) = true /\
  complete ex_flow (run ex_flow ex_sc [FT 0; FP 1; FT 1; FT 2]) = true /\
  valid ex_flow ex_sc [FT 1; FT 0] = false /\
  results (ex_flow) (run ex_flow ex_sc [FT 0; FP 1; FT 1; FT 2]) =
    Some [Some (TmOut 2 0 [TmOut 0 0 [TmParam 0]; TmOut 1 0 [TmParam 0]])].
Proof. vm_compute. repeat split. Qed.
