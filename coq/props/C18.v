(* C18 — Emitter protocol: every run and every task invocation is reported exactly once.

   (1) EmitterStack (EmitterModel): for every expression built from user emitters, no-op
   emitters and EmitterStack, nested to any depth, calling a method of the combination
   calls that method of exactly the user emitters of the expression, in order
   (C18_stack_fanout); an emitter that occurs once receives exactly the event sequence it
   would receive alone (C18_stack_alone), one that occurs n times every event n times.
   (2) Flow events (FlowOpModel.flow_events, job_sem): in every execution the scheduler
   can produce, an invocation of a task function yields exactly one outcome event matching
   what the function did and exactly one TaskDone (C18_task_invoked); without invocation
   there is no TaskDone and no Success/Error (C18_task_not_invoked); the directive emits
   exactly one of Success / Error carrying the returned error (C18_flow_outcome_once),
   FlowDone exactly once and last (C18_flow_done_last), and TaskSkipped exactly once for
   each task not invoked and never for an invoked one (C18_skipped_once).
   Tie: cmd/emstack drives the real cff.EmitterStack on generated nestings with shared
   sub-stacks (aliasing) through every method of the four emitter kinds and compares the
   receivers with the model; the generated-code harness records every event of every
   execution and applies exactly the statements above. Parallel's events: C10. *)
From CffVerif Require Import EmitterModel EmitterProofs EmitterSessionModel EmitterSessionProofs FlowOpModel FlowOpProofs FlowEventProofs.

Theorem C18_stack_fanout : forall t, deliver (build t) = leaves t.
Proof. exact deliver_build. Qed.
Print Assumptions C18_stack_fanout.

Theorem C18_stack_alone :
  forall (E : Type) t (evs : list E) i, count_occ Nat.eq_dec (leaves t) i = 1 -> received (build t) evs i = evs.
Proof. intros E. exact (@received_alone E). Qed.
Print Assumptions C18_stack_alone.

Theorem C18_stack_count :
  forall (E : Type) t (evs : list E) i,
    received (build t) evs i = flat_map (fun e => repeat e (count_occ Nat.eq_dec (leaves t) i)) evs.
Proof. intros E. exact (@received_count E). Qed.
Print Assumptions C18_stack_count.

(* (1b) Init methods and child stacks (EmitterSessionModel): over every session of Init calls
   and method calls on the children they returned, a user emitter occurring once in the
   expression sees what it would see used alone (C18_session_alone), which for a session
   that uses a child only after creating it is the session itself, child for child
   (C18_session_sees_itself); an emitter outside the expression sees nothing and no call
   reaches anything but an emitter of the expression (C18_session_absent,
   C18_session_only_members). Tie: cmd/emsession (real EmitterStack sessions, recorders
   numbering their own children) vs `session` evaluated inside Coq. *)
Theorem C18_session_alone :
  forall (E : Type) t (ops : list (sop E)) i, count_occ Nat.eq_dec (leaves t) i = 1 ->
    sees i (session (build t) ops) = sees i (session (VOne (ALeaf i)) ops).
Proof. intros E. exact (@session_alone E). Qed.
Print Assumptions C18_session_alone.

Theorem C18_session_sees_itself :
  forall (E : Type) t (ops : list (sop E)) i, count_occ Nat.eq_dec (leaves t) i = 1 -> swf 0 ops = true ->
    sees i (session (build t) ops) = ops.
Proof. intros E. exact (@session_sees_itself E). Qed.
Print Assumptions C18_session_sees_itself.

Theorem C18_session_absent :
  forall (E : Type) t (ops : list (sop E)) i, count_occ Nat.eq_dec (leaves t) i = 0 ->
    sees i (session (build t) ops) = [].
Proof. intros E. exact (@session_absent E). Qed.
Print Assumptions C18_session_absent.

Theorem C18_session_only_members :
  forall (E : Type) t (ops : list (sop E)) i o, In (i, o) (session (build t) ops) -> In i (leaves t).
Proof. intros E. exact (@session_inits E). Qed.
Print Assumptions C18_session_only_members.

(* whatever the number of occurrences of i: every Init call on the combination is an Init
   call on i once per occurrence *)
Theorem C18_session_init_count :
  forall (E : Type) t (ops : list (sop E)) i,
    length (filter is_init (sees i (session (build t) ops))) =
    count_occ Nat.eq_dec (leaves t) i * length (filter is_init ops).
Proof. intros E. exact (@session_init_count E). Qed.
Print Assumptions C18_session_init_count.

Theorem C18_task_invoked :
  forall f sc e k ef, unique_providers f -> reach f sc e -> In (FT k, ef) (xlog e) ->
    je_calls ef <> [] -> je_events ef = [expected_outcome f sc k; EvDone].
Proof. intros f sc e k ef Hu R Hin. exact (proj1 (task_events_of_run f sc e k ef Hu R Hin)). Qed.
Print Assumptions C18_task_invoked.

Theorem C18_task_not_invoked :
  forall f sc e k ef, unique_providers f -> reach f sc e -> In (FT k, ef) (xlog e) ->
    je_calls ef = [] ->
    je_events ef = [] \/ je_events ef = [EvPanicRecovered (FPredPanic k)] \/ je_events ef = [EvPanic (FPredPanic k)].
Proof. intros f sc e k ef Hu R Hin. exact (proj2 (task_events_of_run f sc e k ef Hu R Hin)). Qed.
Print Assumptions C18_task_not_invoked.

Theorem C18_flow_outcome_once :
  forall f e ret, filter is_flow_outcome (flow_events f e ret) =
                  [match ret with None => FvSuccess | Some er => FvError er end].
Proof. exact flow_outcome_once. Qed.
Print Assumptions C18_flow_outcome_once.

Theorem C18_flow_done_last :
  forall f e ret, exists l, flow_events f e ret = l ++ [FvDone] /\ filter is_done l = [].
Proof. exact flow_done_last. Qed.
Print Assumptions C18_flow_done_last.

Theorem C18_skipped_once :
  forall f e ret k, k < length (gtasks f) ->
    filter (is_skipped k) (flow_events f e ret) = if invoked e k then [] else [FvSkipped k].
Proof. exact skipped_once. Qed.
Print Assumptions C18_skipped_once.

Example C18_witness :
  deliver (build (EStack [EStack [ELeaf 1; ELeaf 2]; ENop; EStack [EStack [ELeaf 3]; ELeaf 4]])) = [1; 2; 3; 4] /\
  received (build (EStack [EStack [ELeaf 1; ELeaf 2]; ELeaf 3])) [10; 20; 30] 2 = [10; 20; 30].
Proof. vm_compute. split; reflexivity. Qed.
