(* C05 — termination: Flow, Parallel and Wait always return (no deadlock or lost wake-up). *)
From CffVerif Require Import SchedModel SchedLemmas SchedInv SchedInv2 SchedProps SchedInv3 SchedInv4 SchedLive.

(* Every action of caller, loop or worker strictly decreases a measure that starts at
   10*jobs + N + 6; only the ticker and cancellations (environment) leave it unchanged.
   Hence in every run - any DAG, any assignment of {ok, error, Goexit} to jobs, any N,
   both modes, emitter or not, any cancellation instants - the scheduler performs at most
   that many actions: no run goes on forever. *)
Theorem C05_bounded :
  forall c acts s, wf_cfg c -> run c (init c) acts = Some s ->
    count_sched acts <= 10 * length (cprog c) + cN c + 6.
Proof. intros c acts s W. exact (sched_actions_bounded c W acts s). Qed.
Print Assumptions C05_bounded.

(* ... and it never gets stuck early (current code: dispatch gated on ongoing < N): in
   every reachable state that is not final - Wait returned, loop finished, every worker
   exited - some action of caller, loop or a worker is enabled, provided a running job can
   end (AWorkerEnd is always enabled in the model: "every user function eventually
   returns, panics or exits"). Enqueue therefore never blocks forever either: the state
   "caller wants to enqueue" is not final, and the enabled action is then the caller's own
   send, the loop's receive, or the drain. Together with C05_bounded: every maximal run
   is finite and ends with Wait returned. *)
Theorem C05_progress :
  forall c acts s, wf_cfg c -> cgated c = true ->
    run c (init c) acts = Some s -> is_final s = false ->
    exists a s', is_env a = false /\ step c s a = Some s'.
Proof. intros c acts s W G Hr. exact (progress c W acts s Hr G). Qed.
Print Assumptions C05_progress.

(* non-vacuity: a run that ends in a final state after a fail-fast exit with a pending Enqueue *)
Example C05_example :
  let c := {| cN := 1; ccoe := false; cgated := true;
              cprog := [ {| jdeps := []; jctx := 0 |}; {| jdeps := []; jctx := 0 |} ]; cwctx := 0 |} in
  exists s, run c (init c)
              [ACallerEnq; ALoopEnqRecv; ALoopDispatch 0; AWorkerCheck 0; AWorkerEnd 0 (OErr 1); AWorkerPost 0;
               ALoopDone 0; ACallerEnq; ALoopDrain; ACallerWait; ALoopFinish; ACallerRetFin; AWorkerExit 0] = Some s
            /\ is_final s = true /\ cp s = CRet [EUser 1].
Proof. eexists. split; [vm_compute; reflexivity|]. split; reflexivity. Qed.
