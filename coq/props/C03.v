(* C03 — bounded concurrency; goroutines do not grow with work; capacity is real. *)
From CffVerif Require Import SchedModel SchedLemmas SchedInv SchedProps.

(* In every reachable state, whatever the number of jobs: at most N user functions
   are executing, and the scheduler owns at most N worker goroutines plus the loop. *)
Theorem C03_bound :
  forall c acts s, run c (init c) acts = Some s ->
    countb running (workers s) <= cN c /\
    countb alive (workers s) + (match lp s with LFin => 0 | _ => 1 end) <= cN c + 1.
Proof. exact running_bound. Qed.
Print Assumptions C03_bound.

(* The pool is never depleted while the loop lives: a worker that dies by Goexit is
   replaced (WPost -> WIdle in the model), no slot is gone before the loop finished. *)
Theorem C03_pool_intact :
  forall c acts s w, run c (init c) acts = Some s -> lp s <> LFin -> w < cN c -> wk s w <> WExit.
Proof. exact pool_intact. Qed.
Print Assumptions C03_pool_intact.

(* Capacity is real: with a ready job and an idle worker the loop can act at once
   (dispatch, or first receive a pending result) - it never waits for user code. *)
Theorem C03_capacity :
  forall c acts s j rest w,
    run c (init c) acts = Some s -> lp s = LRun -> ready s = j :: rest -> wk s w = WIdle ->
    (exists s', step c s (ALoopDispatch w) = Some s') \/ (exists s', step c s (ALoopDone 0) = Some s').
Proof. exact capacity_real. Qed.
Print Assumptions C03_capacity.

Theorem C03_default :
  forall g, 4 <= default_concurrency g /\ g <= default_concurrency g /\
            (default_concurrency g = g \/ default_concurrency g = 4).
Proof. intros g. unfold default_concurrency. lia. Qed.
Print Assumptions C03_default.

(* non-vacuity: N = 2, both workers running at once, a third job ready *)
Example C03_example :
  let c := {| cN := 2; ccoe := false; cgated := true;
              cprog := repeat {| jdeps := []; jctx := 0 |} 3; cwctx := 0 |} in
  exists s, run c (init c) [ACallerEnq; ALoopEnqRecv; ACallerEnq; ALoopEnqRecv; ACallerEnq; ALoopEnqRecv;
                            ALoopDispatch 0; ALoopDispatch 1; AWorkerCheck 0; AWorkerCheck 1] = Some s
            /\ countb running (workers s) = 2 /\ ready s = [2].
Proof. eexists. split; [vm_compute; reflexivity | split; reflexivity]. Qed.
