(* C08 — ContinueOnError runs everything runnable and reports every failure exactly once. *)
From CffVerif Require Import SchedModel SchedLemmas SchedInv SchedInv2 SchedProps SchedInv3 SchedInv4 SchedTheorems.

(* With ContinueOnError, once the loop has finished: every job whose dependencies all
   ended successfully was started, unless it was skipped for its own cancelled context
   (at most once: C01; jobs downstream of a failure do not start: C08_downstream). *)
Theorem C08_runs :
  forall c acts s j,
    wf_cfg c -> run c (init c) acts = Some s -> ccoe c = true -> lp s = LFin -> j < length (cprog c) ->
    (forall d, In d (jdeps (spec c j)) -> In (EvEnd d OOk) (log s)) ->
    In (EvStart j) (log s) \/ In (EvSkip j (ECtx (jctx (spec c j)))) (log s).
Proof. intros c acts s j W. exact (coe_runs c W acts s j). Qed.
Print Assumptions C08_runs.

Theorem C08_downstream :
  forall c acts s j d o,
    wf_cfg c -> run c (init c) acts = Some s -> reach c d j ->
    In (EvEnd d o) (log s) -> o <> OOk -> ~ In (EvStart j) (log s).
Proof.
  intros c acts s j d o W Hr Hre He Hne Hs.
  destruct (downstream c W acts s j d Hr Hs Hre) as [_ U]. apply Hne. now apply U.
Qed.
Print Assumptions C08_downstream.

(* The recorded error list is exactly, in the order the loop received them, one entry per
   result that carried a real error; every entry is justified by what its job did (the
   user error it returned, its Goexit, or the skip for its cancelled context), the
   internal sentinel never appears, and after completion every job that ended with an
   error has its error in the list. Wait returns this list (r4_ret). *)
Theorem C08_errors :
  forall c acts s,
    wf_cfg c -> run c (init c) acts = Some s -> ccoe c = true ->
    serr s = errs_of (log s) /\
    (forall e, In e (serr s) -> e <> EInvalid /\ exists j, resjust c (log s) j (Some e)) /\
    (lp s = LFin -> forall j o, In (EvEnd j o) (log s) -> o <> OOk ->
                    exists e, res_of o = Some e /\ In e (serr s)).
Proof. intros c acts s W. exact (coe_errors c W acts s). Qed.
Print Assumptions C08_errors.

(* each job's result is received at most once, so it contributes at most one entry *)
Theorem C08_once :
  forall c acts s post j r pre,
    wf_cfg c -> run c (init c) acts = Some s -> log s = post ++ EvDoneRecv j r :: pre ->
    forall r', ~ In (EvDoneRecv j r') pre.
Proof.
  intros c acts s post j r pre W Hr Hl. pose proof (r4_hist2 _ _ (run_rinv4 c W _ _ Hr)) as Hh.
  rewrite Hl in Hh. apply h2_ok_app in Hh. cbn in Hh. tauto.
Qed.
Print Assumptions C08_once.

(* What Wait returns: the context error (only if that context was cancelled), or the list. *)
Theorem C08_return :
  forall c acts s r,
    wf_cfg c -> run c (init c) acts = Some s -> cp s = CRet r ->
    (r = [ECtx (cwctx c)] /\ In (EvCancel (cwctx c)) (log s)) \/ (lp s = LFin /\ r = serr s).
Proof. intros c acts s r W Hr. exact (r4_ret _ _ (run_rinv4 c W _ _ Hr) r). Qed.
Print Assumptions C08_return.

(* non-vacuity: 0 fails, its dependent 1 is skipped with the sentinel (not reported),
   the independent 2 runs; the dependent is enqueued after the failure was processed *)
Definition c08_cfg : cfg :=
  {| cN := 1; ccoe := true; cgated := true;
     cprog := [ {| jdeps := []; jctx := 0 |}; {| jdeps := [0]; jctx := 0 |}; {| jdeps := []; jctx := 0 |} ];
     cwctx := 0 |}.
Example C08_example :
  exists s, run c08_cfg (init c08_cfg)
              [ACallerEnq; ALoopEnqRecv; ALoopDispatch 0; AWorkerCheck 0; AWorkerEnd 0 (OErr 5); AWorkerPost 0;
               ALoopDone 0; ACallerEnq; ALoopEnqRecv; ALoopDispatch 0; AWorkerCheck 0; AWorkerPost 0; ALoopDone 0;
               ACallerEnq; ALoopEnqRecv; ALoopDispatch 0; AWorkerCheck 0; AWorkerEnd 0 OOk; AWorkerPost 0;
               ACallerWait; ALoopEnqClosed; ALoopDone 0; ALoopFinish; ACallerRetFin] = Some s
            /\ cp s = CRet [EUser 5] /\ In (EvSkip 1 EInvalid) (log s) /\ In (EvStart 2) (log s).
Proof. eexists. split; [vm_compute; reflexivity|]. cbn. intuition. Qed.

(* ---- the generated code (Layer 2): what ContinueOnError produces is a *saturated*
   execution of the generated jobs - every job all of whose dependencies returned nil has
   run (C08_runs above, transported by C02_every_scheduler_run). In every such execution,
   for every flow or Parallel embedding with unique providers and a source for every
   consumed type: a function ran exactly when the flow semantics does not block it (i.e.
   when nothing it transitively depends on failed), and the failures are exactly the
   failures of the semantics - no more, no fewer. Layer 2 is used qualified. *)
From CffVerif Require FlowSemModel FlowOpModel FlowOpProofs FlowComplete FlowSaturated.

Theorem C08_generated_runs :
  forall f sc, FlowOpProofs.unique_providers f -> FlowComplete.all_provided_b f = true ->
  forall e k, FlowOpProofs.reach f sc e -> FlowSaturated.saturated f e -> k < length (FlowSemModel.gtasks f) ->
    (In (FlowOpModel.FT k) (FlowOpModel.ran e) <->
     forall pc, FlowSemModel.tresult f sc (FlowSemModel.fuel_of f) k <> FlowSemModel.RBlocked pc).
Proof. exact FlowSaturated.saturated_ran_iff. Qed.
Print Assumptions C08_generated_runs.

Theorem C08_generated_failures :
  forall f sc, FlowOpProofs.unique_providers f -> FlowComplete.all_provided_b f = true ->
  forall e er, FlowOpProofs.reach f sc e -> FlowSaturated.saturated f e ->
    (In er (FlowOpModel.xfail e) <-> In er (FlowSemModel.failures f sc)).
Proof. exact FlowSaturated.saturated_failures. Qed.
Print Assumptions C08_generated_failures.
