(* C10 — Parallel runs every task, element and map entry exactly once; End hooks last.

   A cff.Parallel is, for the scheduler, a flow (ParallelModel.par_flow): one job per
   function and per element, and an End job whose Dependencies are all element jobs of its
   own collection - modelled as the End hook consuming a private type of each element. The
   theorems are those of the operational model (FlowOpProofs) read on such flows, for every
   execution the scheduler can produce (C01/C07 of Layer 0):
     - every job, hence every function and every element call, runs at most once
       (C10_at_most_once), and in an execution where every job returned nil each function
       was called exactly once (C10_all_called);
     - when an End hook runs, every element job of its collection is logged before it with
       result nil (C10_end_after_elements);
     - if an element call failed, panicked or never ran, the End hook never runs
       (C10_end_starved).
   Partial on two clauses, labelled so: that the element job for index i calls the function
   with (i, s[i]) - the per-iteration copies idx := idx, val := val of the template - and
   that the embedding is what the template emits are Go-level facts, tied by the
   correspondence: every generated Parallel (all signature shapes, empty and nil
   collections, named slice types, generic enclosing functions) is executed, each element
   call logs its arguments, and sequence numbers order End hooks against element returns;
   the embedding computed here is compared with the generator's (harness) on every program. *)
From CffVerif Require Import FlowOpModel FlowOpProofs ParallelModel ParallelProofs.

Theorem C10_at_most_once :
  forall f sc, unique_providers f -> forall e, reach f sc e -> NoDup (ran e).
Proof. exact runs_once. Qed.
Print Assumptions C10_at_most_once.

Theorem C10_all_called :
  forall f sc, unique_providers f -> forall e, reach f sc e -> complete f e = true ->
    forall k, k < length (gtasks f) -> kpred (taskof f k) = None ->
      exists ef, In (FT k, ef) (xlog e) /\ je_res ef = JOk /\ length (je_calls ef) = 1.
Proof. exact complete_all_called. Qed.
Print Assumptions C10_all_called.

Theorem C10_end_after_elements :
  forall f sc, unique_providers f -> forall e, reach f sc e ->
    forall l1 x ef l2, xlog e = l1 ++ (x, ef) :: l2 ->
    forall d, In d (jdeps f x) -> exists efd, In (d, efd) l1 /\ je_res efd = JOk.
Proof. exact deps_logged_before. Qed.
Print Assumptions C10_end_after_elements.

Theorem C10_end_starved :
  forall f sc, unique_providers f -> forall e x d, reach f sc e -> In d (jdeps f x) ->
    (~ In d (ran e) \/ exists efd er, In (d, efd) (xlog e) /\ je_res efd = JFail er) -> ~ In x (ran e).
Proof. exact failed_dep_starves. Qed.
Print Assumptions C10_end_starved.

(* every Parallel program qualifies: its embedding has unique providers, so the theorems
   above hold for all Parallel programs without further hypothesis *)
Theorem C10_every_parallel_qualifies : forall items, unique_providers (par_flow items).
Proof. exact par_flow_unique_providers. Qed.
Print Assumptions C10_every_parallel_qualifies.

Theorem C10_parallel_at_most_once :
  forall items sc e, reach (par_flow items) sc e -> NoDup (ran e).
Proof. intros items sc. exact (runs_once (par_flow items) sc (par_flow_unique_providers items)). Qed.
Print Assumptions C10_parallel_at_most_once.

Theorem C10_parallel_end_starved :
  forall items sc e x d, reach (par_flow items) sc e -> In d (jdeps (par_flow items) x) ->
    (~ In d (ran e) \/ exists efd er, In (d, efd) (xlog e) /\ je_res efd = JFail er) -> ~ In x (ran e).
Proof. intros items sc. exact (failed_dep_starves (par_flow items) sc (par_flow_unique_providers items)). Qed.
Print Assumptions C10_parallel_end_starved.

(* the End job depends on every job that produces one of its inputs - in the embedding:
   on every element job of its own collection (end_task (seq ty n) consumes the types that
   elem_task j, j in seq ty n, produce) *)
Theorem C10_end_depends_on_its_elements :
  forall f, unique_providers f -> forall k kend t, k < length (gtasks f) ->
    In t (kouts (taskof f k)) -> In t (kins (taskof f kend)) -> In (FT k) (jdeps f (FT kend)).
Proof.
  intros f Hu k kend t Hk Ho Hi. destruct (Hu k t Hk Ho) as [i Hg].
  cbn [jdeps]. apply in_or_app. left. eapply in_prov_jobs; eauto.
Qed.
Print Assumptions C10_end_depends_on_its_elements.

(* the per-iteration copies of the template (ParallelModel.element_args): with them every
   element job passes its own (i, s[i]) whatever loop-variable semantics the Go version has;
   C10_loop_vars_refuted shows what a dropped copy does under the semantics before Go 1.22
   (the harness module declares go 1.19, so a dropped copy is visible to the correspondence) *)
Theorem C10_element_arguments :
  forall (V : Type) (d : V) sem s i, element_args V d OwnCopy sem s i = (i, nth i s d).
Proof. exact own_copy_args. Qed.
Print Assumptions C10_element_arguments.

Example C10_loop_vars_refuted : element_args nat 0 LoopVars false [7; 8] 0 = (1, 8).
Proof. exact loop_vars_refuted. Qed.

(* a Task, a Slice of 3 with SliceEnd, a Map of 2 without hook: the End job (index 4)
   depends on exactly the three element jobs; with element 1 failing it cannot run *)
Definition ex_par := par_flow [PTask true; PColl 3 true true true; PColl 2 false false false].

Example C10_witness :
  unique_providers_b ex_par = true /\
  jdeps ex_par (FT 4) = [FT 1; FT 2; FT 3] /\
  length (gtasks ex_par) = 7 /\
  (let sc := {| sc_task := fun _ => OOK; sc_pred := fun _ => PTRUE |} in
   complete ex_par (run ex_par sc (canonical ex_par sc)) = true) /\
  (let sc := {| sc_task := fun k => if Nat.eqb k 2 then OERR else OOK; sc_pred := fun _ => PTRUE |} in
   valid ex_par sc [FT 1; FT 2; FT 3; FT 4] = false /\ valid ex_par sc [FT 1; FT 2; FT 3; FT 0] = true).
Proof. vm_compute. repeat split. Qed.
