(* C12 — data-race freedom of the scheduler and of generated plumbing (scheduler part).
   A race needs two unordered accesses to one location, one of them a write. The theorems
   below establish, on the model, the access discipline and the ordering from which the
   absence of races follows under Go's memory model for channels (taken as given):
   who may write which location, and the chain of channel operations between a job's
   end and its consumers' starts. That no other shared location exists is established by
   the race detector on the real code (the tie), not by these theorems: partial. *)
From CffVerif Require Import SchedModel SchedLemmas SchedInv SchedInv2 SchedProps SchedInv3 SchedInv4 SchedLive SchedRace.

(* Only the loop goroutine writes job state, the ready list, the counters and s.err. *)
Theorem C12_loop_only :
  forall c s a s' evs,
    stepc c s a = Some (s', evs) -> is_loop_act a = false ->
    jobs s' = jobs s /\ ready s' = ready s /\ serr s' = serr s /\
    pending s' = pending s /\ ongoing s' = ongoing s /\ waiting s' = waiting s /\
    lp s' = lp s /\ enq_nil s' = enq_nil s.
Proof. exact loop_only. Qed.
Print Assumptions C12_loop_only.

(* Enqueue touches only the enqueue channel: concurrent Enqueue calls share nothing else. *)
Theorem C12_enqueue :
  forall c s s' evs,
    stepc c s ACallerEnq = Some (s', evs) ->
    jobs s' = jobs s /\ ready s' = ready s /\ serr s' = serr s /\ workers s' = workers s /\
    donec s' = donec s /\ pending s' = pending s /\ ongoing s' = ongoing s /\ waiting s' = waiting s /\
    lp s' = lp s /\ enq_nil s' = enq_nil s /\ enq_closed s' = enq_closed s /\ cancelled s' = cancelled s.
Proof. exact enqueue_only. Qed.
Print Assumptions C12_enqueue.

(* Workers write nothing but their own slot and the result channel. *)
Theorem C12_worker_only :
  forall c s a s' evs,
    stepc c s a = Some (s', evs) ->
    match a with AWorkerCheck _ | AWorkerEnd _ _ | AWorkerPost _ | AWorkerExit _ => True | _ => False end ->
    jobs s' = jobs s /\ enq s' = enq s /\ cp s' = cp s /\ cancelled s' = cancelled s /\ enq_closed s' = enq_closed s.
Proof. exact worker_only. Qed.
Print Assumptions C12_worker_only.

(* The one job field a worker reads that the loop writes - invalid - is never written
   after the job was put on the ready list: the read is ordered after every write by the
   dispatch on the unbuffered ready channel. *)
Theorem C12_invalid_stable :
  forall c acts s a s' j,
    wf_cfg c -> run c (init c) acts = Some s -> step c s a = Some s' ->
    0 < relc (ready s) (workers s) (donec s) j ->
    jinvalid (job s' j) = jinvalid (job s j).
Proof.
  intros c acts s a s' j W Hr. apply (invalid_stable c W s a s' j). apply (run_rinv3 c W _ _ Hr).
Qed.
Print Assumptions C12_invalid_stable.

(* Values: between the successful end of a provider p and the start of a consumer j lie,
   in this order, the worker's send of p's result on donec, the loop's receipt of it, and
   the dispatch of j on readyc. *)
Theorem C12_values :
  forall c acts s post j pre p,
    wf_cfg c -> run c (init c) acts = Some s -> log s = post ++ EvStart j :: pre -> In p (jdeps (spec c j)) ->
    exists w, chain pre [EvDispatch j w; EvDoneRecv p None; EvPost p; EvEnd p OOk].
Proof. intros c acts s post j pre p W. exact (hb_chain c W acts s post j pre p). Qed.
Print Assumptions C12_values.

(* Results are read by the caller only after the loop finished; s.err is not written after. *)
Theorem C12_results :
  forall c acts s r,
    wf_cfg c -> run c (init c) acts = Some s -> cp s = CRet r ->
    (r = [ECtx (cwctx c)] /\ In (EvCancel (cwctx c)) (log s)) \/ (lp s = LFin /\ r = serr s).
Proof. intros c acts s r W Hr. exact (r4_ret _ _ (run_rinv4 c W _ _ Hr) r). Qed.
Print Assumptions C12_results.
