(* With the repaired walk a file is either refused or every directive call of it is
   replaced: an output is written exactly when the file contains a directive, and no
   directive call is left in it. Before the fix a dotted directive was neither. *)
From CffVerif Require Import RecogniseModel.

Lemma left_in_app a b : left_in (a ++ b) = left_in a + left_in b.
Proof. unfold left_in. now rewrite filter_app, app_length. Qed.

Lemma left_in_codes l : left_in (map OCode l) = 0.
Proof. induction l as [|x l IH]; [reflexivity|]. exact IH. Qed.

Lemma left_in_emit f : left_in (flat_map emit f) = errors f.
Proof.
  induction f as [|i f IH]; [reflexivity|]. cbn [flat_map]. rewrite left_in_app, IH.
  unfold errors. cbn [filter]. destruct i as [c|[|] gen]; cbn [emit is_dotted].
  - reflexivity.
  - now rewrite left_in_codes.
  - reflexivity.
Qed.

Lemma no_dotted_all_recognised f : errors f = 0 -> recognised f = length (filter is_dir f).
Proof.
  unfold errors, recognised. induction f as [|i f IH]; [reflexivity|]. cbn [filter].
  destruct i as [c|[|] gen]; cbn [is_dotted is_dir length]; intros H; [now apply IH | now rewrite IH | discriminate].
Qed.

(* the repaired tool *)
Theorem fixed_processes_or_refuses f :
  match run_fixed f with
  | inr n => n = errors f /\ 0 < n                                   (* refused, one diagnostic per dotted directive *)
  | inl None => forall i, In i f -> is_dir i = false                 (* nothing to do: the file has no directive *)
  | inl (Some o) => left_in o = 0 /\ exists i, In i f /\ is_dir i = true   (* every directive replaced *)
  end.
Proof.
  unfold run_fixed. destruct (Nat.eqb (errors f) 0) eqn:E.
  - apply Nat.eqb_eq in E. destruct (Nat.eqb (recognised f) 0) eqn:R.
    + apply Nat.eqb_eq in R. rewrite (no_dotted_all_recognised f E) in R.
      intros i Hi. destruct (is_dir i) eqn:D; [|reflexivity].
      assert (Hin : In i (filter is_dir f)) by (apply filter_In; auto).
      destruct (filter is_dir f); [destruct Hin | discriminate].
    + apply Nat.eqb_neq in R. split; [now rewrite left_in_emit|].
      rewrite (no_dotted_all_recognised f E) in R.
      destruct (filter is_dir f) as [|i l] eqn:F; [cbn in R; lia|].
      assert (Hin : In i (filter is_dir f)) by (rewrite F; now left).
      apply filter_In in Hin. exists i. exact Hin.
  - apply Nat.eqb_neq in E. split; [reflexivity | lia].
Qed.

(* the tool before the fix: a file whose only directive is dotted gets no output and no
   diagnostic; next to a qualified one the dotted directive is left in the output *)
Theorem old_refuted :
  run_old [Code 1; Dir Dotted [7]] = None /\
  exists o, run_old [Dir Qualified [5]; Dir Dotted [7]] = Some o /\ left_in o = 1.
Proof. split; [reflexivity|]. eexists. split; reflexivity. Qed.

Example fixed_on_the_witnesses :
  run_fixed [Code 1; Dir Dotted [7]] = inr 1 /\ run_fixed [Dir Qualified [5]; Code 2] = inl (Some [OCode 5; OCode 2]).
Proof. split; reflexivity. Qed.
