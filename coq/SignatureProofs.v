(* What compileFunction guarantees about every signature it accepts: the generated call
   fn(ctx?, inputs...) and the bindings outputs..., err? := are exactly the parameter and
   result lists of the user's function; it accepts exactly the supported signatures; an
   accepted predicate has exactly one output (the bool) and no error; an accepted
   FallbackWith has one value per output of a task that can fail. *)
From CffVerif Require Import SignatureModel.

Lemma scan_params_spec ps : forall i acc wc r w,
  scan_params i ps acc wc = Some (r, w) ->
  exists tl_, r = acc ++ tl_ /\ existsb is_ctx tl_ = false /\
    ((w = wc /\ tl_ = ps) \/ (i = 0 /\ w = true /\ ps = GCtx :: tl_)).
Proof.
  induction ps as [|p ps IH]; intros i acc wc r w H; cbn [scan_params] in H.
  - injection H as <- <-. exists []. rewrite app_nil_r. split; [reflexivity|]. split; [reflexivity|]. now left.
  - destruct (is_ctx p) eqn:Hp.
    + destruct (Nat.eqb i 0) eqn:Hi; [|discriminate]. apply Nat.eqb_eq in Hi. subst i.
      destruct (IH _ _ _ _ _ H) as (t & -> & Hn & [[-> ->]|[Hc _]]); [|discriminate].
      exists ps. split; [reflexivity|]. split; [exact Hn|]. right. destruct p; try discriminate. auto.
    + destruct (IH _ _ _ _ _ H) as (t & -> & Hn & [[-> ->]|[Hc _]]); [|discriminate].
      exists (p :: ps). rewrite <- app_assoc. split; [reflexivity|]. split; [cbn; now rewrite Hp|]. now left.
Qed.

Lemma scan_params_none ps : forall i acc wc,
  scan_params i ps acc wc = None <-> exists j, nth_error ps j = Some GCtx /\ i + j <> 0.
Proof.
  induction ps as [|p ps IH]; intros i acc wc; cbn [scan_params].
  - split; [discriminate|]. intros [j [H _]]. destruct j; discriminate.
  - destruct (is_ctx p) eqn:Hp.
    + assert (p = GCtx) by (destruct p; try discriminate; reflexivity). subst p.
      destruct (Nat.eqb i 0) eqn:Hi.
      * apply Nat.eqb_eq in Hi. subst i. rewrite IH. split.
        -- intros [j [H _]]. exists (S j). split; [exact H | lia].
        -- intros [j [H Hj]]. destruct j as [|j]; [lia|]. exists j. split; [exact H | lia].
      * apply Nat.eqb_neq in Hi. split; [|reflexivity]. intros _. exists 0. split; [reflexivity | lia].
    + rewrite IH. split.
      * intros [j [H Hj]]. exists (S j). split; [exact H | lia].
      * intros [j [H Hj]]. destruct j as [|j]; [cbn in H; injection H as ->; discriminate|]. exists j. split; [exact H | lia].
Qed.

Lemma scan_results_spec rs : forall n i acc he r h, n = i + length rs ->
  scan_results n i rs acc he = Some (r, h) ->
  exists mid, r = acc ++ mid /\ existsb is_err mid = false /\
    ((h = he /\ mid = rs) \/ (h = true /\ rs = mid ++ [GErr])).
Proof.
  induction rs as [|x rs IH]; intros n i acc he r h Hn H; cbn [scan_results] in H.
  - injection H as <- <-. exists []. rewrite app_nil_r. split; [reflexivity|]. split; [reflexivity|]. now left.
  - cbn [length] in Hn. destruct (is_err x) eqn:Hx.
    + destruct (Nat.eqb i (n - 1)) eqn:Hi; [|discriminate]. apply Nat.eqb_eq in Hi.
      assert (rs = []) by (destruct rs; [reflexivity | cbn in Hn; lia]). subst rs.
      cbn [scan_results] in H. injection H as <- <-. exists []. rewrite app_nil_r.
      split; [reflexivity|]. split; [reflexivity|]. right. destruct x; try discriminate. auto.
    + destruct (IH n (S i) _ _ _ _ ltac:(lia) H) as (m & -> & Hm & Hc).
      exists (x :: m). rewrite <- app_assoc. split; [reflexivity|]. split; [cbn; now rewrite Hx|].
      destruct Hc as [[-> ->]|[-> ->]]; [now left | now right].
Qed.

Lemma scan_results_none rs : forall n i acc he, n = i + length rs ->
  scan_results n i rs acc he = None <-> exists j, nth_error rs j = Some GErr /\ S (i + j) <> n.
Proof.
  induction rs as [|x rs IH]; intros n i acc he Hn; cbn [scan_results].
  - split; [discriminate|]. intros [j [H _]]. destruct j; discriminate.
  - cbn [length] in Hn. destruct (is_err x) eqn:Hx.
    + assert (x = GErr) by (destruct x; try discriminate; reflexivity). subst x.
      destruct (Nat.eqb i (n - 1)) eqn:Hi.
      * apply Nat.eqb_eq in Hi. rewrite (IH n (S i)) by lia. split.
        -- intros [j [H Hj]]. exists (S j). split; [exact H | lia].
        -- intros [j [H Hj]]. destruct j as [|j]; [lia|]. exists j. split; [exact H | lia].
      * apply Nat.eqb_neq in Hi. split; [|reflexivity]. intros _. exists 0. split; [reflexivity | lia].
    + rewrite (IH n (S i)) by lia. split.
      * intros [j [H Hj]]. exists (S j). split; [exact H | lia].
      * intros [j [H Hj]]. destruct j as [|j]; [cbn in H; injection H as ->; discriminate|]. exists j. split; [exact H | lia].
Qed.

(* the generated call matches the user's function *)
Theorem call_matches_signature s f : compile_function s = inl f ->
  call_args f = sg_params s /\ call_binds f = sg_results s /\
  existsb is_ctx (cf_inputs f) = false /\ existsb is_err (cf_outputs f) = false.
Proof.
  unfold compile_function. destruct (sg_variadic s); [discriminate|].
  destruct (scan_params 0 (sg_params s) [] false) as [[ins wc]|] eqn:Hp; [|discriminate].
  destruct (scan_results (length (sg_results s)) 0 (sg_results s) [] false) as [[outs he]|] eqn:Hr; [|discriminate].
  intros H. injection H as <-. unfold call_args, call_binds. cbn [cf_wantctx cf_inputs cf_outputs cf_haserr].
  destruct (scan_params_spec _ _ _ _ _ _ Hp) as (t & -> & Hnc & Hc).
  destruct (scan_results_spec (sg_results s) (length (sg_results s)) 0 [] false _ _ eq_refl Hr) as (m & -> & Hne & He).
  cbn [app]. repeat split; try assumption.
  - destruct Hc as [[-> ->]|(_ & -> & ->)]; reflexivity.
  - destruct He as [[-> ->]|[-> ->]]; [now rewrite app_nil_r | reflexivity].
Qed.

(* it accepts exactly the supported signatures, and says why it refuses the others *)
Theorem accepts_iff_supported s : (exists f, compile_function s = inl f) <-> supported s.
Proof.
  unfold compile_function, supported. destruct (sg_variadic s).
  { split; [intros [f H]; discriminate | intros [H _]; discriminate]. }
  destruct (scan_params 0 (sg_params s) [] false) as [[ins wc]|] eqn:Hp.
  - destruct (scan_results (length (sg_results s)) 0 (sg_results s) [] false) as [[outs he]|] eqn:Hr.
    + split; [|intros _; eexists; reflexivity]. intros _. split; [reflexivity|]. split.
      * intros i Hi. destruct (Nat.eq_dec i 0) as [|Hne]; [assumption|].
        assert (Hn : scan_params 0 (sg_params s) [] false = None) by (apply scan_params_none; exists i; split; [exact Hi | lia]).
        congruence.
      * intros i Hi. destruct (Nat.eq_dec (S i) (length (sg_results s))) as [|Hne]; [assumption|].
        assert (Hn : scan_results (length (sg_results s)) 0 (sg_results s) [] false = None)
          by (apply scan_results_none; [reflexivity | exists i; split; [exact Hi | cbn; lia]]).
        congruence.
    + split; [intros [f H]; discriminate|]. intros (_ & _ & H).
      apply scan_results_none in Hr; [|reflexivity]. destruct Hr as [j [Hj Hne]]. specialize (H j Hj). cbn in Hne. lia.
  - split; [intros [f H]; discriminate|]. intros (_ & H & _).
    apply scan_params_none in Hp. destruct Hp as [j [Hj Hne]]. specialize (H j Hj). cbn in Hne. lia.
Qed.

Theorem refusal_reasons s d : compile_function s = inr d ->
  (d = SVariadic /\ sg_variadic s = true) \/
  (d = SCtxPos /\ exists j, j <> 0 /\ nth_error (sg_params s) j = Some GCtx) \/
  (d = SErrPos /\ exists j, S j <> length (sg_results s) /\ nth_error (sg_results s) j = Some GErr).
Proof.
  unfold compile_function. destruct (sg_variadic s); [intros H; injection H as <-; now left|].
  destruct (scan_params 0 (sg_params s) [] false) as [[ins wc]|] eqn:Hp.
  - destruct (scan_results (length (sg_results s)) 0 (sg_results s) [] false) as [[outs he]|] eqn:Hr; [discriminate|].
    intros H. injection H as <-. right. right. split; [reflexivity|].
    apply scan_results_none in Hr; [|reflexivity]. destruct Hr as [j [Hj Hne]]. exists j. cbn in Hne. split; [lia | exact Hj].
  - intros H. injection H as <-. right. left. split; [reflexivity|].
    apply scan_params_none in Hp. destruct Hp as [j [Hj Hne]]. exists j. cbn in Hne. split; [lia | exact Hj].
Qed.

(* an accepted predicate has exactly one output, the bool, and cannot fail: the code's
   Outputs[0] is in range and predicate jobs have no error to report *)
Theorem predicate_shape s f : compile_predicate s = inl f ->
  cf_outputs f = [GBool] /\ cf_haserr f = false /\ call_args f = sg_params s /\ sg_results s = [GBool].
Proof.
  unfold compile_predicate. destruct (sg_variadic s); [discriminate|].
  destruct (sg_results s) as [|r [|r2 rs]] eqn:Hrs; try discriminate; [|destruct r; discriminate].
  destruct r; try discriminate. intros H.
  destruct (call_matches_signature s f H) as (Ha & Hb & _ & Hne).
  unfold call_binds in Hb. rewrite Hrs in Hb.
  destruct (cf_haserr f).
  - exfalso. destruct (cf_outputs f) as [|o [|o2 os]]; cbn in Hb; discriminate.
  - rewrite app_nil_r in Hb. repeat split; auto.
Qed.

(* a task whose declaration is accepted *)
Theorem accepted_task t : compile_task t = [] ->
  exists f, compile_function (td_fn t) = inl f /\
    (forall k, td_fallback t = Some k -> k = length (cf_outputs f) /\ cf_haserr f = true) /\
    (forall ps, td_pred t = Some ps -> exists pf, compile_predicate ps = inl pf) /\
    (td_invoke t = true <-> cf_outputs f = []).
Proof.
  unfold compile_task. destruct (compile_function (td_fn t)) as [f|d] eqn:Hf; [|discriminate].
  intros H. apply app_eq_nil in H. destruct H as [Hfb H]. apply app_eq_nil in H. destruct H as [Hp H].
  apply app_eq_nil in H. destruct H as [Hno Hinv].
  exists f. split; [reflexivity|]. split; [|split].
  - intros k Hk. unfold fallback_diags in Hfb. rewrite Hk in Hfb.
    destruct (Nat.eqb k (length (cf_outputs f))) eqn:E; [|discriminate]. apply Nat.eqb_eq in E. split; [exact E|].
    cbn [negb] in Hfb. destruct (existsb is_err (sg_results (td_fn t))) eqn:Ee; [|discriminate].
    destruct (call_matches_signature _ _ Hf) as (_ & Hb & _ & Hne). unfold call_binds in Hb.
    destruct (cf_haserr f); [reflexivity|]. rewrite app_nil_r in Hb. rewrite <- Hb in Ee. congruence.
  - intros ps Hps. unfold pred_diags in Hp. rewrite Hps in Hp.
    destruct (compile_predicate ps) as [pf|]; [now exists pf | discriminate].
  - destruct (cf_outputs f) as [|o os]; cbn [length Nat.eqb negb andb] in *.
    + destruct (td_invoke t); [tauto | discriminate].
    + destruct (td_invoke t); [discriminate|]. split; discriminate.
Qed.

(* the premises are met by ordinary signatures, and the quirks are what they are *)
Example ex_ctx_err :
  compile_function {| sg_variadic := false; sg_params := [GCtx; GVal 1; GErr]; sg_results := [GVal 2; GCtx; GErr] |}
  = inl {| cf_wantctx := true; cf_inputs := [GVal 1; GErr]; cf_outputs := [GVal 2; GCtx]; cf_haserr := true |}.
Proof. reflexivity. Qed.
Example ex_two_ctx : compile_function {| sg_variadic := false; sg_params := [GCtx; GCtx]; sg_results := [GVal 0] |} = inr SCtxPos.
Proof. reflexivity. Qed.
Example ex_err_first : compile_function {| sg_variadic := false; sg_params := []; sg_results := [GErr; GVal 0] |} = inr SErrPos.
Proof. reflexivity. Qed.
Example ex_pred_err : compile_predicate {| sg_variadic := false; sg_params := [GVal 0]; sg_results := [GBool; GErr] |} = inr SPredResult.
Proof. reflexivity. Qed.
Example ex_task_ok :
  compile_task {| td_fn := {| sg_variadic := false; sg_params := [GCtx; GVal 1]; sg_results := [GVal 2; GErr] |};
                  td_pred := Some {| sg_variadic := false; sg_params := [GVal 3]; sg_results := [GBool] |};
                  td_fallback := Some 1; td_invoke := false |} = [].
Proof. reflexivity. Qed.
