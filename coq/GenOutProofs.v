From CffVerif Require Import GenOutModel PrologueProofs AliasModel AliasProofs.

Lemma code_reset_from tok os : forall i, code_of (reset_from i tok os) = code_of os.
Proof.
  induction os as [|o os IH]; intros i; [reflexivity|].
  destruct o as [c|c|t]; cbn [reset_from code_of flat_map]; fold (code_of os);
    try destruct (Nat.eqb c tok); cbn [app]; fold (code_of (reset_from (S i) tok os)); now rewrite IH.
Qed.

Lemma code_render m tok ts : code_of (render m tok ts) = flat_map (fun t => match t with TCode c => [c] | _ => [] end) ts.
Proof.
  unfold render, code_of. induction ts as [|t ts IH]; [reflexivity|].
  cbn [flat_map]. rewrite flat_map_app, IH. destruct t, m; reflexivity.
Qed.

(* source-map mode emits exactly the code of base mode *)
Theorem sourcemap_same_code tok1 tok2 ts : code_of (output SourceMap tok1 ts) = code_of (output Base tok2 ts).
Proof. unfold output, reset_magic. rewrite code_reset_from, !code_render. reflexivity. Qed.

(* no magic comment survives, unless the user's file already contains the token *)
Lemma reset_no_token tok os : forall i, ~ In (OComment tok) (reset_from i tok os).
Proof.
  induction os as [|o os IH]; intros i; [intros []|].
  destruct o as [c|c|t]; cbn [reset_from]; intros [H|H]; try discriminate; try (now apply (IH (S i))).
  destruct (Nat.eqb_spec c tok) as [->|Hne]; [discriminate|]. injection H as ->. now elim Hne.
Qed.

Theorem no_magic_left tok ts : ~ In (OComment tok) (output SourceMap tok ts).
Proof. apply reset_no_token. Qed.

(* the output does not depend on the random token, as long as no user comment is the token *)
Lemma reset_render_indep t1 t2 ts : ~ In t1 (user_comments ts) -> ~ In t2 (user_comments ts) ->
  forall i, reset_from i t1 (render SourceMap t1 ts) = reset_from i t2 (render SourceMap t2 ts).
Proof.
  unfold render. induction ts as [|t ts IH]; intros H1 H2 i; [reflexivity|].
  cbn [flat_map user_comments] in *.
  assert (H1' : ~ In t1 (user_comments ts)) by (intros H; apply H1; apply in_or_app; now right).
  assert (H2' : ~ In t2 (user_comments ts)) by (intros H; apply H2; apply in_or_app; now right).
  destruct t as [c|c|pos|]; cbn [render1 app reset_from].
  - f_equal. now apply IH.
  - assert (c <> t1) by (intros ->; apply H1; now left). assert (c <> t2) by (intros ->; apply H2; now left).
    destruct (Nat.eqb_spec c t1), (Nat.eqb_spec c t2); try contradiction. f_equal. now apply IH.
  - f_equal. now apply IH.
  - rewrite !Nat.eqb_refl. f_equal. now apply IH.
Qed.

Theorem token_irrelevant m t1 t2 ts : ~ In t1 (user_comments ts) -> ~ In t2 (user_comments ts) ->
  output m t1 ts = output m t2 ts.
Proof.
  intros H1 H2. destruct m; unfold output.
  - unfold render. induction ts as [|t ts IH]; [reflexivity|]. cbn [flat_map user_comments] in *.
    rewrite IH; [destruct t; reflexivity| |]; intros H; [apply H1 | apply H2]; apply in_or_app; now right.
  - now apply reset_render_indep.
Qed.

(* the order in which the Go map hands out the new imports is irrelevant *)
Theorem imports_order_irrelevant k1 k2 : (forall x, In x k1 <-> In x k2) -> imports_emitted k1 = imports_emitted k2.
Proof. apply prologue_set_ext. Qed.

(* ---- the names taken by the file's imports form a set: their order is irrelevant *)
Lemma pick_least fuel : forall a taken r, pick fuel a taken = Some r ->
  exists k, r = unders k a /\ (forall j, j < k -> In (unders j a) taken) /\ ~ In (unders k a) taken.
Proof.
  intros a taken r H. destruct (pick_sound fuel a taken r H) as [Hn [k [-> Hk]]]. exists k. auto.
Qed.

Lemma pick_set_ext f1 f2 a t1 t2 r1 r2 : (forall x, In x t1 <-> In x t2) ->
  pick f1 a t1 = Some r1 -> pick f2 a t2 = Some r2 -> r1 = r2.
Proof.
  intros He H1 H2. destruct (pick_least _ _ _ _ H1) as [k1 [-> [L1 N1]]]. destruct (pick_least _ _ _ _ H2) as [k2 [-> [L2 N2]]].
  destruct (Nat.lt_trichotomy k1 k2) as [Hlt|[->|Hlt]]; [|reflexivity|].
  - exfalso. apply N1. apply He. now apply L2.
  - exfalso. apply N2. apply He. now apply L1.
Qed.

Definition same_state (s1 s2 : ist) : Prop := adds s1 = adds s2 /\ forall x, In x (used s1) <-> In x (used s2).

Lemma print_alias_ext p n s1 s2 r1 r2 s1' s2' : same_state s1 s2 ->
  print_alias p n s1 = Some (r1, s1') -> print_alias p n s2 = Some (r2, s2') -> r1 = r2 /\ same_state s1' s2'.
Proof.
  intros [Ha Hu] H1 H2. unfold print_alias in *. rewrite <- Ha in H2.
  destruct (lookup p (adds s1)) as [nm|].
  - injection H1 as <- <-. injection H2 as <- <-. split; [reflexivity | split; assumption].
  - destruct (pick (S (length (used s1))) n (used s1)) as [a1|] eqn:E1; [|discriminate].
    destruct (pick (S (length (used s2))) n (used s2)) as [a2|] eqn:E2; [|discriminate].
    injection H1 as <- <-. injection H2 as <- <-.
    pose proof (pick_set_ext _ _ _ _ _ _ _ Hu E1 E2) as <-. split; [reflexivity|].
    split; cbn [adds used]; [now rewrite Ha|]. intros x. cbn. rewrite (Hu x). tauto.
Qed.

Theorem seed_order_irrelevant reqs : forall s1 s2 l1 l2 e1 e2, same_state s1 s2 ->
  requests reqs s1 = Some (l1, e1) -> requests reqs s2 = Some (l2, e2) -> l1 = l2 /\ adds e1 = adds e2.
Proof.
  induction reqs as [|[p n] reqs IH]; intros s1 s2 l1 l2 e1 e2 Hs H1 H2; cbn [requests] in *.
  - injection H1 as <- <-. injection H2 as <- <-. split; [reflexivity | apply Hs].
  - destruct (print_alias p n s1) as [[a1 s1']|] eqn:E1; [|discriminate].
    destruct (print_alias p n s2) as [[a2 s2']|] eqn:E2; [|discriminate].
    destruct (requests reqs s1') as [[m1 f1]|] eqn:R1; [|discriminate].
    destruct (requests reqs s2') as [[m2 f2]|] eqn:R2; [|discriminate].
    injection H1 as <- <-. injection H2 as <- <-.
    destruct (print_alias_ext _ _ _ _ _ _ _ _ Hs E1 E2) as [<- Hs'].
    destruct (IH _ _ _ _ _ _ Hs' R1 R2) as [<- Hadds]. split; [reflexivity | assumption].
Qed.
