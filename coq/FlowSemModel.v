(* Layer 2, semantics: what a cff.Flow computes, as a function of the abstract program
   and of what every user function does (the scenario). This is the specification that
   C02 / C07 / C11 state; definitions only. Values are terms: the value a task returns
   is determined by the task and the values it was given. *)
From Coq Require Export List Arith Bool Lia.
Export ListNotations.

Inductive term :=
| TmParam (t : nat)                                  (* the cff.Params value of type t *)
| TmOut (task idx : nat) (args : list term)          (* idx-th result of task called with args *)
| TmZero                                             (* the zero value (predicate returned false) *)
| TmFall (task idx : nat).                           (* idx-th cff.FallbackWith value of task *)

Inductive touts := OOK | OERR | OPANIC.              (* what a task function does *)
Inductive pouts := PTRUE | PFALSE | PPANIC.          (* what a predicate function does *)

Inductive ferr := FErr (task : nat) | FPanic (task : nat) | FPredPanic (task : nat).

Record ftask := {
  kins : list nat; kouts : list nat;
  kpred : option (list nat);
  kinvoke : bool; kfallback : bool; khaserr : bool
}.
Record fflow := { gparams : list nat; gresults : list nat; gtasks : list ftask }.

Record scenario := { sc_task : nat -> touts; sc_pred : nat -> pouts }.

(* the provider of a type among the tasks: (task index, output index); last one wins *)
Fixpoint find_idx (t : nat) (l : list nat) (i : nat) : option nat :=
  match l with [] => None | x :: r => if Nat.eqb x t then Some i else find_idx t r (S i) end.

Fixpoint prov_from (k : nat) (ts : list ftask) (t : nat) : option (nat * nat) :=
  match ts with
  | [] => None
  | x :: r =>
      match prov_from (S k) r t with
      | Some p => Some p
      | None => match find_idx t (kouts x) 0 with Some i => Some (k, i) | None => None end
      end
  end.
Definition gprov (f : fflow) (t : nat) : option (nat * nat) := prov_from 0 (gtasks f) t.

Definition ktask0 := {| kins := []; kouts := []; kpred := None; kinvoke := false; kfallback := false; khaserr := false |}.

(* what becomes of one task in one execution *)
Inductive tres :=
| RBlocked (pcall : option (list term))         (* some input never became available (the predicate may have run) *)
| RFail (e : ferr) (pcall tcall : option (list term))   (* the flow fails with e *)
| ROuts (outs : list term) (pcall tcall : option (list term)).  (* the task's outputs, and the calls made *)

Fixpoint all_some {A} (l : list (option A)) : option (list A) :=
  match l with
  | [] => Some []
  | Some x :: r => match all_some r with Some xs => Some (x :: xs) | None => None end
  | None :: _ => None
  end.

Section Sem.
  Variable f : fflow.
  Variable sc : scenario.

  (* one task, given the values of the types *)
  Definition task_step (tv : nat -> option term) (k : nat) : tres :=
    let tk := nth k (gtasks f) ktask0 in
    let fallback_outs := map (fun i => TmFall k i) (seq 0 (length (kouts tk))) in
    let zero_outs := map (fun _ => TmZero) (kouts tk) in
    let with_args (pc : option (list term)) (k_ok : list term -> tres) : tres :=
      match all_some (map tv (kins tk)) with
      | None => RBlocked pc
      | Some args => k_ok args
      end in
    let run_task (pc : option (list term)) (args : list term) :=
      match sc_task sc k with
      | OOK => ROuts (map (fun i => TmOut k i args) (seq 0 (length (kouts tk)))) pc (Some args)
      | OERR => if kfallback tk then ROuts fallback_outs pc (Some args) else RFail (FErr k) pc (Some args)
      | OPANIC => if kfallback tk then ROuts fallback_outs pc (Some args) else RFail (FPanic k) pc (Some args)
      end in
    match kpred tk with
    | None => with_args None (run_task None)
    | Some pins =>
        (* the predicate is a job of its own: it runs as soon as its own inputs exist *)
        match all_some (map tv pins) with
        | None => RBlocked None
        | Some pargs =>
            with_args (Some pargs) (fun args =>
              match sc_pred sc k with
              | PTRUE => run_task (Some pargs) args
              | PFALSE => ROuts zero_outs (Some pargs) None
              | PPANIC => if kfallback tk then ROuts fallback_outs (Some pargs) None
                          else RFail (FPredPanic k) (Some pargs) None
              end)
        end
    end.

  (* one type, given the results of the tasks *)
  Definition val_step (tr : nat -> tres) (t : nat) : option term :=
    match gprov f t with
    | Some (k, i) => match tr k with ROuts outs _ _ => nth_error outs i | _ => None end
    | None => if existsb (Nat.eqb t) (gparams f) then Some (TmParam t) else None
    end.

  (* value of a type and result of a task, by recursion over the provider graph;
     fuel bounds the depth (two levels per task) *)
  Fixpoint tval (fuel : nat) (t : nat) : option term :=
    match fuel with
    | 0 => None
    | S fuel' => val_step (tresult fuel') t
    end
  with tresult (fuel : nat) (k : nat) : tres :=
    match fuel with
    | 0 => RBlocked None
    | S fuel' => task_step (tval fuel') k
    end.

  Definition fuel_of : nat := S (S (4 * length (gtasks f))).

  Definition results_of : list tres := map (tresult fuel_of) (seq 0 (length (gtasks f))).

  Definition failures : list ferr :=
    flat_map (fun r => match r with RFail e _ _ => [e] | _ => [] end) results_of.

  (* the values cff.Results targets receive when the flow returns nil *)
  Definition result_values : option (list term) := all_some (map (tval fuel_of) (gresults f)).

  (* calls made: (is_pred, task, args) *)
  Definition calls : list (bool * nat * list term) :=
    flat_map (fun kr =>
      match snd kr with
      | RFail _ pc tc | ROuts _ pc tc =>
          (match pc with Some a => [(true, fst kr, a)] | None => [] end) ++
          (match tc with Some a => [(false, fst kr, a)] | None => [] end)
      | RBlocked pc => match pc with Some a => [(true, fst kr, a)] | None => [] end
      end) (combine (seq 0 (length (gtasks f))) results_of).

  Definition blocked : list nat :=
    flat_map (fun kr => match snd kr with RBlocked _ => [fst kr] | _ => [] end)
             (combine (seq 0 (length (gtasks f))) results_of).
End Sem.
