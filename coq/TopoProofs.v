(* toposort yields every function exactly once, each after all of its dependencies: the
   generated code declares and enqueues a provider before its consumers. *)
From CffVerif Require Import TopoModel.

Lemma memn_in x l : memn x l = true <-> In x l.
Proof.
  unfold memn. rewrite existsb_exists. split.
  - intros [y [Hy E]]. apply Nat.eqb_eq in E. now subst.
  - intros H. exists x. split; [exact H | apply Nat.eqb_refl].
Qed.

Lemma NoDup_app_snoc {A} (l : list A) (x : A) : NoDup l -> ~ In x l -> NoDup (l ++ [x]).
Proof.
  induction l as [|a l IH]; cbn; intros Hn Hx.
  - constructor; [intros []|constructor].
  - inversion Hn as [|? ? Ha Hl]; subst. constructor.
    + intros H. apply in_app_or in H. destruct H as [H|[H|[]]]; [contradiction|]. subst. apply Hx. now left.
    + apply IH; [assumption|]. intros H. apply Hx. now right.
Qed.

Section Proofs.
  Variable deps : nat -> list nat.
  Variable count : nat.
  (* the graph is acyclic: some rank decreases along every dependency *)
  Variable rk : nat -> nat.
  Hypothesis Hrk : forall n d, In d (deps n) -> rk d < rk n.
  Hypothesis Hclosed : forall n d, n < count -> In d (deps n) -> d < count.

  (* x occurs in st after every one of its dependencies *)
  Definition ordered (st : list nat) : Prop :=
    forall l1 x l2, st = l1 ++ x :: l2 -> forall d, In d (deps x) -> In d l1.

  Record Inv (st : list nat) : Prop := {
    i_nodup : NoDup st;
    i_ordered : ordered st;
    i_range : forall x, In x st -> x < count
  }.

  Lemma ordered_snoc st n : ordered st -> (forall d, In d (deps n) -> In d st) -> ordered (st ++ [n]).
  Proof.
    intros Ho Hd l1 x l2 E d Hdx.
    destruct l2 as [|y l2].
    - apply app_inj_tail in E. destruct E as [<- <-]. now apply Hd.
    - assert (E' : st = l1 ++ x :: removelast (y :: l2)).
      { apply (f_equal (@removelast nat)) in E. rewrite removelast_app in E by discriminate. cbn [removelast] in E.
        rewrite app_nil_r in E. rewrite E. rewrite removelast_app by discriminate. reflexivity. }
      eapply Ho; eauto.
  Qed.

  (* what one visit does *)
  Definition visit_ok (fuel n : nat) : Prop :=
    forall st, Inv st -> n < count -> rk n < fuel ->
      Inv (visit deps fuel n st) /\ In n (visit deps fuel n st) /\
      (exists ext, visit deps fuel n st = st ++ ext /\ forall x, In x ext -> rk x <= rk n).

  Lemma fold_visit fuel n : (forall d, In d (deps n) -> visit_ok fuel d) -> forall ds st,
    incl ds (deps n) -> Inv st -> n < count -> rk n <= fuel ->
      let st' := fold_left (fun s d => visit deps fuel d s) ds st in
      Inv st' /\ (forall d, In d ds -> In d st') /\
      (exists ext, st' = st ++ ext /\ forall x, In x ext -> rk x < rk n).
  Proof.
    intros Hv ds. induction ds as [|d ds IH]; intros st Hin I Hn Hf; cbn [fold_left].
    - split; [exact I|]. split; [intros d []|]. exists []. split; [now rewrite app_nil_r | intros x []].
    - assert (Hd : In d (deps n)) by (apply Hin; now left).
      destruct (Hv d Hd st I (Hclosed n d Hn Hd)) as (I1 & Hd1 & ext1 & E1 & R1); [specialize (Hrk n d Hd); lia|].
      destruct (IH (visit deps fuel d st)) as (I2 & Hd2 & ext2 & E2 & R2); auto.
      { intros x Hx. apply Hin. now right. }
      split; [exact I2|]. split.
      + intros x [<-|Hx]; [rewrite E2; apply in_or_app; now left | now apply Hd2].
      + exists (ext1 ++ ext2). split; [rewrite E2, E1, app_assoc; reflexivity|].
        intros x Hx. apply in_app_or in Hx. destruct Hx as [Hx|Hx]; [specialize (R1 x Hx); specialize (Hrk n d Hd); lia | now apply R2].
  Qed.

  Lemma visit_spec fuel : forall n, visit_ok fuel n.
  Proof.
    induction fuel as [|f IH]; intros n st I Hn Hf; [lia|]. cbn [visit].
    destruct (memn n st) eqn:M.
    - apply memn_in in M. split; [exact I|]. split; [exact M|]. exists []. split; [now rewrite app_nil_r | intros x []].
    - assert (Hnot : ~ In n st) by (intros H; apply memn_in in H; congruence).
      destruct (fold_visit f n (fun d _ => IH d) (deps n) st (incl_refl _) I Hn ltac:(lia)) as (I1 & Hd1 & ext & E & R).
      set (st' := fold_left (fun s d => visit deps f d s) (deps n) st) in *.
      assert (Hn' : ~ In n st').
      { rewrite E. intros H. apply in_app_or in H. destruct H as [H|H]; [contradiction | specialize (R n H); lia]. }
      split; [|split].
      + constructor.
        * apply NoDup_app_snoc; [apply (i_nodup _ I1) | exact Hn'].
        * apply ordered_snoc; [apply (i_ordered _ I1) | exact Hd1].
        * intros x Hx. apply in_app_or in Hx. destruct Hx as [Hx|[<-|[]]]; [now apply (i_range _ I1) | exact Hn].
      + apply in_or_app. right. now left.
      + exists (ext ++ [n]). split; [rewrite E, app_assoc; reflexivity|].
        intros x Hx. apply in_app_or in Hx. destruct Hx as [Hx|[<-|[]]]; [specialize (R x Hx); lia | lia].
  Qed.

  (* the whole sort *)
  Theorem toposort_valid fuel : (forall n, n < count -> rk n < fuel) ->
    let r := toposort deps fuel count in
    NoDup r /\ (forall n, In n r <-> n < count) /\ ordered r.
  Proof.
    intros Hf r. unfold r, toposort.
    assert (H : forall k st, k <= count -> Inv st -> (forall n, n < count - k -> In n st) ->
              let st' := fold_left (fun s n => visit deps fuel n s) (seq (count - k) k) st in
              Inv st' /\ forall n, n < count -> In n st').
    { induction k as [|k IH]; intros st Hk I Hall; cbn [seq fold_left].
      - split; [exact I|]. intros n Hn. apply Hall. lia.
      - replace (S (count - S k)) with (count - k) by lia.
        destruct (visit_spec fuel (count - S k) st I ltac:(lia) (Hf (count - S k) ltac:(lia))) as (I1 & Hin & ext & E & _).
        apply IH; [lia | exact I1|].
        intros n Hn. destruct (Nat.eq_dec n (count - S k)) as [->|Hne]; [exact Hin|].
        rewrite E. apply in_or_app. left. apply Hall. lia. }
    destruct (H count [] (le_n _)) as [I Hall].
    - constructor; [constructor | intros l1 x l2 E; destruct l1; discriminate | intros x []].
    - intros n Hn. lia.
    - rewrite Nat.sub_diag in *. split; [apply (i_nodup _ I)|]. split; [|apply (i_ordered _ I)].
      intros n. split; [apply (i_range _ I) | apply Hall].
  Qed.
End Proofs.
