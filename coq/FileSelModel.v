(* Which files one run of the tool processes, where it writes and what it exits with
   (cmd/cff/main.go run: the --file map with its duplicate check, the loop over the compiled
   files of the loaded packages, the default output name, the accumulated error;
   internal/process.go: nothing is written for a file whose compilation reported errors).
   A file is its directory, its base name, whether compiling it reports errors and whether it
   contains a directive (only then an output is written). Definitions only. *)
From CffVerif Require Import BuildTagModel.

Record cfile := { sf_dir : nat; sf_base : str; sf_fail : bool; sf_emits : bool }.

(* where an output goes: the default name next to the source, or the OUTPUT of --file *)
Inductive opath := ODefault (dir : nat) (name : str) | OExplicit (o : str).

(* one --file=INPUT[=OUTPUT] argument; an empty OUTPUT means none (the code tests len(output) == 0) *)
Definition selarg := (str * str)%type.

Fixpoint dup_input (s : list selarg) : bool :=
  match s with
  | [] => false
  | (i, _) :: r => existsb (fun p => list_eqb (fst p) i) r || dup_input r
  end.

Definition lookup (s : list selarg) (b : str) : option str :=
  match find (fun p => list_eqb (fst p) b) s with
  | Some (_, o) => Some o
  | None => None
  end.

(* the output of a file, None when --file was given and does not name it *)
Definition target (s : list selarg) (f : cfile) : option opath :=
  match s with
  | [] => Some (ODefault (sf_dir f) (gen_filename (sf_base f)))
  | _ => match lookup s (sf_base f) with
         | None => None
         | Some [] => Some (ODefault (sf_dir f) (gen_filename (sf_base f)))
         | Some o => Some (OExplicit o)
         end
  end.

Record outcome := { written : list (opath * cfile); processed : nat; errored : nat }.

Definition process1 (s : list selarg) (acc : outcome) (f : cfile) : outcome :=
  match target s f with
  | None => acc
  | Some o =>
      {| written := if sf_fail f then written acc
                    else if sf_emits f then written acc ++ [(o, f)] else written acc;
         processed := S (processed acc);
         errored := if sf_fail f then S (errored acc) else errored acc |}
  end.

Definition run_files (s : list selarg) (files : list cfile) : outcome :=
  fold_left (process1 s) files {| written := []; processed := 0; errored := 0 |}.

(* None: "file already specified before", nothing is loaded or written *)
Definition run_tool (s : list selarg) (files : list cfile) : option outcome :=
  if dup_input s then None else Some (run_files s files).

Definition exit_nonzero (o : option outcome) : bool :=
  match o with None => true | Some r => negb (Nat.eqb (errored r) 0) end.

Definition selected (s : list selarg) (f : cfile) : bool :=
  match target s f with Some _ => true | None => false end.
