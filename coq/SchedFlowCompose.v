(* Composition of Layer 0 and Layer 2: every run of the scheduler model on the job graph of a
   generated Flow (or Parallel), in which each job reports to the scheduler what its run
   closure actually did, is - read in the order in which the jobs end - an execution
   `FlowOpProofs.reach` of the generated program. Hence every Layer-2 theorem (schedule
   independence, arguments from providers, exactly the flow semantics, End hooks last,
   events) holds for every DAG-respecting interleaving the scheduler can produce, for any
   number of workers, both error modes, and any cancellation.
   A job's effect is placed at its end event: between its start and its end other jobs may
   run, but (FlowOpProofs.frame) they write nothing the job reads, so the placement does not
   matter; that the real closures touch only the variables of the model is the tie made by
   the correspondence runs and the race detector. *)
From CffVerif Require Import SchedModel SchedLemmas SchedInv SchedInv2 SchedProps SchedInv3 SchedInv4 SchedTheorems SchedRace.
From CffVerif Require FlowOpModel FlowOpProofs.

Module FO := FlowOpModel.
Module FP := FlowOpProofs.

Section Compose.
  Variable c : cfg.
  Variable f : FlowSemModel.fflow.
  Variable sc : FlowSemModel.scenario.

  (* which generated job the scheduler's job j (the j-th Enqueue call) is: any numbering of
     generated jobs - the generated code enqueues them in topological order *)
  Variable jobof : nat -> option FO.fid.
  Hypothesis Hjobs : forall j x, jobof j = Some x -> In x (FO.all_jobs f).
  Hypothesis Hinj : forall i j x, jobof i = Some x -> jobof j = Some x -> i = j.

  (* the Dependencies the generated code passes to Enqueue are (at least) those of the model *)
  Hypothesis Hgraph : forall j x y, jobof j = Some x -> In y (FO.jdeps f x) ->
    exists d, In d (jdeps (spec c j)) /\ jobof d = Some y.

  (* the jobs in the order in which they end, oldest first (the log is newest first) *)
  Fixpoint ends (l : list event) : list nat :=
    match l with
    | [] => []
    | EvEnd j _ :: l' => ends l' ++ [j]
    | _ :: l' => ends l'
    end.

  Definition estep (e : FO.exec) (j : nat) : FO.exec :=
    match jobof j with Some x => FO.step f sc e x | None => e end.

  Definition exec_of (l : list event) : FO.exec := fold_left estep (ends l) (FO.exec0 f).

  (* what each job reported to the scheduler is what its run closure did *)
  Fixpoint consistent (l : list event) : Prop :=
    match l with
    | [] => True
    | EvEnd j o :: l' =>
        consistent l' /\
        forall x, jobof j = Some x ->
          (o = OOk <-> FO.je_res (FO.job_sem f sc (FO.xstore (exec_of l')) x) = FO.JOk)
    | _ :: l' => consistent l'
    end.

  Lemma exec_of_end j o l : exec_of (EvEnd j o :: l) = estep (exec_of l) j.
  Proof. unfold exec_of. cbn [ends]. now rewrite fold_left_app. Qed.

  Lemma may_run_intro e x : In x (FO.all_jobs f) -> ~ In x (FO.ran e) ->
    (forall d, In d (FO.jdeps f x) -> In d (FO.xok e)) -> FO.may_run f e x = true.
  Proof.
    intros H1 H2 H3. unfold FO.may_run. rewrite !andb_true_iff, negb_true_iff. repeat split.
    - now apply FP.existsb_fid.
    - apply not_true_is_false. intros H. apply H2. now apply FP.existsb_fid.
    - apply forallb_forall. intros d Hd. apply FP.existsb_fid. now apply H3.
  Qed.

  Lemma step_ok_mono e x y : In y (FO.xok e) -> In y (FO.xok (FO.step f sc e x)).
  Proof. unfold FO.step. cbn [FO.xok]. intros H. destruct (FO.is_ok _); [apply in_or_app; now left | exact H]. Qed.

  Theorem history_is_execution l : c01_ok c l -> h3_ok c l -> consistent l ->
    FP.reach f sc (exec_of l) /\
    (forall d x, jobof d = Some x -> In (EvEnd d OOk) l -> In x (FO.xok (exec_of l))) /\
    (forall x, In x (FO.ran (exec_of l)) -> exists j o, jobof j = Some x /\ In (EvEnd j o) l).
  Proof.
    induction l as [|e l IH]; intros H1 H3 Hc.
    - split; [apply FP.reach0|]. split; [intros d x _ [] | intros x []].
    - cbn [c01_ok h3_ok] in H1, H3. destruct H1 as [H1 He1]. destruct H3 as [H3 He3].
      assert (Hc' : consistent l) by (destruct e; cbn [consistent] in Hc; try exact Hc; exact (proj1 Hc)).
      destruct (IH H1 H3 Hc') as (IHr & IHok & IHran).
      destruct e as [j| |r|j|j w|j r|p r w i cc| | |j| |j|j er|j o|j|w|cx];
        try (split; [exact IHr|]; split;
             [intros d x Hd [Hin|Hin]; [discriminate | now apply (IHok d x)]
             |intros x Hx; destruct (IHran x Hx) as (j' & o' & Hj & Hin); exists j', o'; split; [exact Hj | now right]]).
      rewrite exec_of_end. unfold estep. destruct (jobof j) as [x|] eqn:Ej.
      + (* the job may run now *)
        assert (Hm : FO.may_run f (exec_of l) x = true).
        { apply may_run_intro.
          - eapply Hjobs; eauto.
          - intros Hx. destruct (IHran x Hx) as (j' & o' & Hj' & Hin).
            assert (j' = j) by (eapply Hinj; eauto).
            subst j'. now apply (He1 o').
          - intros y Hy. destruct (Hgraph j x y Ej Hy) as [d [Hd Hjd]].
            apply in_split in He3. destruct He3 as (post & pre & El).
            pose proof H1 as H1'. rewrite El in H1'. apply c01_ok_app in H1'. cbn [c01_ok] in H1'.
            destruct H1' as [_ [_ Hdeps]]. apply (IHok d y Hjd). rewrite El. apply in_or_app. right. right. now apply Hdeps. }
        split; [now apply FP.reach_step|]. split.
        * intros d y Hd [Hin|Hin].
          -- injection Hin as -> ->. rewrite Ej in Hd. injection Hd as <-.
             cbn [consistent] in Hc. destruct Hc as [_ Hcons]. specialize (Hcons x Ej).
             unfold FO.step. cbn [FO.xok]. rewrite (proj1 Hcons eq_refl). cbn. apply in_or_app. right. now left.
          -- apply step_ok_mono. now apply (IHok d y).
        * intros y Hy. rewrite (FP.ran_step f sc) in Hy. apply in_app_or in Hy. destruct Hy as [Hy|[<-|[]]].
          -- destruct (IHran y Hy) as (j' & o' & Hj' & Hin). exists j', o'. split; [exact Hj' | now right].
          -- exists j, o. split; [exact Ej | now left].
      + split; [exact IHr|]. split.
        * intros d y Hd [Hin|Hin]; [injection Hin as -> _; congruence | now apply (IHok d y)].
        * intros y Hy. destruct (IHran y Hy) as (j' & o' & Hj' & Hin). exists j', o'. split; [exact Hj' | now right].
  Qed.

  (* every run of the scheduler model *)
  Theorem scheduler_runs_are_flow_executions acts s :
    wf_cfg c -> run c (init c) acts = Some s -> consistent (log s) -> FP.reach f sc (exec_of (log s)).
  Proof.
    intros W Hr Hc.
    pose proof (r3_hist c s (run_rinv3 c W acts s Hr)) as H1.
    pose proof (r6_hist3 c s (run_rinv6 c W acts s Hr)) as H3.
    exact (proj1 (history_is_execution (log s) H1 H3 Hc)).
  Qed.
End Compose.

(* ---- non-vacuity: a flow of three tasks, one with a predicate (jobs FT 0, FP 1, FT 1, FT 2),
   enqueued in topological order on a one-worker scheduler; the hypotheses of the
   composition hold and the run is an execution of the generated program *)
Definition cmp_flow : FlowSemModel.fflow :=
  {| FlowSemModel.gparams := [0]; FlowSemModel.gresults := [3];
     FlowSemModel.gtasks := [ {| FlowSemModel.kins := [0]; FlowSemModel.kouts := [1]; FlowSemModel.kpred := None; FlowSemModel.kinvoke := false; FlowSemModel.kfallback := false; FlowSemModel.khaserr := false |};
                 {| FlowSemModel.kins := [0]; FlowSemModel.kouts := [2]; FlowSemModel.kpred := Some [1]; FlowSemModel.kinvoke := false; FlowSemModel.kfallback := false; FlowSemModel.khaserr := false |};
                 {| FlowSemModel.kins := [1; 2]; FlowSemModel.kouts := [3]; FlowSemModel.kpred := None; FlowSemModel.kinvoke := false; FlowSemModel.kfallback := false; FlowSemModel.khaserr := true |} ] |}.
Definition cmp_sc : FlowSemModel.scenario := {| FlowSemModel.sc_task := fun _ => FlowSemModel.OOK; FlowSemModel.sc_pred := fun _ => FlowSemModel.PTRUE |}.
Definition cmp_cfg : cfg :=
  {| cN := 1; ccoe := false; cgated := true;
     cprog := [ {| jdeps := []; jctx := 0 |}; {| jdeps := [0]; jctx := 0 |}; {| jdeps := [1]; jctx := 0 |}; {| jdeps := [0; 2]; jctx := 0 |} ];
     cwctx := 0 |}.
Definition cmp_one := [ACallerEnq; ALoopEnqRecv; ALoopDispatch 0; AWorkerCheck 0; AWorkerEnd 0 OOk; AWorkerPost 0; ALoopDone 0].
Definition cmp_acts := cmp_one ++ cmp_one ++ cmp_one ++ cmp_one.
Definition cmp_jobof (j : nat) : option FO.fid :=
  match j with 0 => Some (FO.FT 0) | 1 => Some (FO.FP 1) | 2 => Some (FO.FT 1) | 3 => Some (FO.FT 2) | _ => None end.

Example composition_witness :
  wf_cfg_b cmp_cfg = true /\
  exists s, run cmp_cfg (init cmp_cfg) cmp_acts = Some s /\
            ends (log s) = [0; 1; 2; 3] /\
            consistent cmp_flow cmp_sc cmp_jobof (log s) /\
            FO.complete cmp_flow (exec_of cmp_flow cmp_sc cmp_jobof (log s)) = true.
Proof.
  split; [reflexivity|]. eexists. split; [vm_compute; reflexivity|]. split; [reflexivity|]. split.
  - cbn [log consistent]. repeat match goal with |- _ /\ _ => split end; try exact I;
      intros x0 Hx0; vm_compute in Hx0; injection Hx0 as <-; vm_compute; split; reflexivity.
  - vm_compute. reflexivity.
Qed.

Lemma cmp_graph : forall j x y, cmp_jobof j = Some x -> In y (FO.jdeps cmp_flow x) ->
  exists d, In d (jdeps (spec cmp_cfg j)) /\ cmp_jobof d = Some y.
Proof.
  intros j x y Hj Hy. destruct j as [|[|[|[|j]]]]; cbn in Hj; try discriminate; injection Hj as <-;
    vm_compute in Hy; repeat (destruct Hy as [<-|Hy]); try contradiction.
  - exists 0. split; [now left | reflexivity].
  - exists 1. split; [now left | reflexivity].
  - exists 0. split; [now left | reflexivity].
  - exists 2. split; [right; now left | reflexivity].
Qed.
