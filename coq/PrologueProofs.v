From CffVerif Require Import PrologueModel.
From Coq Require Import Sorted.

Lemma insert_u_in x y l : In y (insert_u x l) <-> y = x \/ In y l.
Proof.
  induction l as [|a l IH]; cbn [insert_u In].
  - intuition (try subst; auto).
  - destruct (x <? a) eqn:E1; [cbn [In]; intuition (try subst; auto)|].
    destruct (x =? a) eqn:E2.
    + apply Nat.eqb_eq in E2. subst. cbn [In]. intuition (try subst; auto).
    + cbn [In]. rewrite IH. intuition (try subst; auto).
Qed.

Lemma insert_u_sorted x l : StronglySorted lt l -> StronglySorted lt (insert_u x l).
Proof.
  induction 1 as [|a l Hs IH Ha]; cbn [insert_u].
  - constructor; constructor.
  - destruct (x <? a) eqn:E1.
    + apply Nat.ltb_lt in E1. constructor; [constructor; assumption|].
      constructor; [assumption|]. rewrite Forall_forall in Ha |- *. intros y Hy. specialize (Ha y Hy). lia.
    + destruct (x =? a) eqn:E2; [constructor; assumption|].
      apply Nat.ltb_ge in E1. apply Nat.eqb_neq in E2.
      constructor; [assumption|]. rewrite Forall_forall in Ha |- *. intros y Hy.
      apply insert_u_in in Hy. destruct Hy as [->|Hy]; [lia | now apply Ha].
Qed.

Lemma prologue_sorted uses : StronglySorted lt (prologue uses).
Proof. induction uses as [|x u IH]; cbn [prologue fold_right]; [constructor | now apply insert_u_sorted]. Qed.

Lemma prologue_in uses x : In x (prologue uses) <-> In x uses.
Proof.
  induction uses as [|a u IH]; cbn [prologue fold_right In]; [tauto|]. fold (prologue u). rewrite insert_u_in, IH. intuition (try subst; auto).
Qed.

Lemma sorted_nodup l : StronglySorted lt l -> NoDup l.
Proof.
  induction 1 as [|a l Hs IH Ha]; constructor; [|assumption].
  intros Hin. rewrite Forall_forall in Ha. specialize (Ha a Hin). lia.
Qed.

Lemma sorted_ext l1 : forall l2, StronglySorted lt l1 -> StronglySorted lt l2 ->
  (forall x, In x l1 <-> In x l2) -> l1 = l2.
Proof.
  induction l1 as [|a l1 IH]; intros l2 S1 S2 H.
  - destruct l2 as [|b l2]; [reflexivity|]. exfalso. apply (H b). now left.
  - destruct l2 as [|b l2]; [exfalso; apply (H a); now left|].
    inversion S1 as [|? ? S1' F1]; subst. inversion S2 as [|? ? S2' F2]; subst.
    rewrite Forall_forall in F1, F2.
    assert (a = b).
    { destruct (proj1 (H a) (or_introl eq_refl)) as [->|Hb]; [reflexivity|].
      destruct (proj2 (H b) (or_introl eq_refl)) as [->|Ha]; [reflexivity|].
      specialize (F1 b Ha). specialize (F2 a Hb). lia. }
    subst b. f_equal. apply IH; auto. intros x. split; intros Hx.
    + destruct (proj1 (H x) (or_intror Hx)) as [->|Hx']; [|assumption]. specialize (F1 x Hx). lia.
    + destruct (proj2 (H x) (or_intror Hx)) as [->|Hx']; [|assumption]. specialize (F2 x Hx). lia.
Qed.

(* the prologue depends only on the set of expressions mentioned, not on the order or
   number of mentions *)
Lemma prologue_set_ext u1 u2 : (forall x, In x u1 <-> In x u2) -> prologue u1 = prologue u2.
Proof.
  intros H. apply sorted_ext; try apply prologue_sorted. intros x. rewrite !prologue_in. apply H.
Qed.

(* if the templates mention exactly the expressions the user wrote, the prologue is the
   user's expressions in source order *)
Lemma prologue_is_source exprs uses :
  StronglySorted lt exprs -> (forall x, In x uses <-> In x exprs) -> prologue uses = exprs.
Proof.
  intros S H. apply sorted_ext; [apply prologue_sorted | assumption|].
  intros x. rewrite prologue_in. apply H.
Qed.

Lemma eval_as_source (state : Type) (effect : nat -> state -> state) exprs uses s :
  StronglySorted lt exprs -> (forall x, In x uses <-> In x exprs) ->
  eval_prologue state effect uses s = eval_source state effect exprs s.
Proof. intros S H. unfold eval_prologue, eval_source. rewrite (prologue_is_source exprs uses S H). reflexivity. Qed.

Lemma eval_log (state : Type) (effect : nat -> state -> state) l : forall (s : state) acc,
  snd (fold_left (fun a p => (effect p (fst a), snd a ++ [p])) l (s, acc)) = acc ++ l.
Proof.
  induction l as [|p l IH]; intros s acc; cbn; [now rewrite app_nil_r|].
  rewrite IH. rewrite <- app_assoc. reflexivity.
Qed.
