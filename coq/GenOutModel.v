(* Layer 2, the text of a generated file (internal/gen.go GenerateFile, resetMagicTokens,
   the lineDir / printMagic template functions). Output text is a list of items: code
   tokens (numbered), user comments, and - in source-map mode only - line directives and
   the random magic comment that is later replaced by a line directive pointing into the
   generated file itself. Definitions only. *)
From CffVerif Require Export PrologueModel.

Inductive mode := Base | SourceMap.

(* what the templates and the copied user text produce *)
Inductive titem :=
| TCode (c : nat)            (* a token of code: user text copied verbatim or template text *)
| TUserComment (c : nat)     (* a comment of the user's file *)
| TLineDir (pos : nat)       (* {{ lineDir . }}: "" in base mode *)
| TMagic.                    (* {{ magic }}: "" in base mode *)

Inductive oitem :=
| OCode (c : nat)
| OComment (c : nat)         (* user comment, or the magic comment whose text is the token *)
| OLine (target : nat).      (* a /*line ...*/ or //line directive *)

Definition render1 (m : mode) (tok : nat) (t : titem) : list oitem :=
  match t, m with
  | TCode c, _ => [OCode c]
  | TUserComment c, _ => [OComment c]
  | TLineDir pos, SourceMap => [OLine pos]
  | TMagic, SourceMap => [OComment tok]
  | TLineDir _, Base => []
  | TMagic, Base => []
  end.
Definition render (m : mode) (tok : nat) (ts : list titem) : list oitem := flat_map (render1 m tok) ts.

(* resetMagicTokens: every comment whose text is the token becomes a line directive whose
   target is a function of where it stands in the output (its index here) *)
Fixpoint reset_from (i : nat) (tok : nat) (os : list oitem) : list oitem :=
  match os with
  | [] => []
  | OComment c :: r => (if Nat.eqb c tok then OLine (1000 + i) else OComment c) :: reset_from (S i) tok r
  | o :: r => o :: reset_from (S i) tok r
  end.
Definition reset_magic (tok : nat) (os : list oitem) : list oitem := reset_from 0 tok os.

Definition output (m : mode) (tok : nat) (ts : list titem) : list oitem :=
  match m with Base => render Base tok ts | SourceMap => reset_magic tok (render SourceMap tok ts) end.

(* the code of an output: what remains when comments and line directives are dropped *)
Definition code_of (os : list oitem) : list nat :=
  flat_map (fun o => match o with OCode c => [c] | _ => [] end) os.

Definition user_comments (ts : list titem) : list nat :=
  flat_map (fun t => match t with TUserComment c => [c] | _ => [] end) ts.

(* the new imports are added in sorted order of their paths (ranks), whatever order the
   Go map hands them out in *)
Definition imports_emitted (keys : list nat) : list nat := prologue keys.
