(* Layer 2, the prologue of a generated directive (internal/gen.go: printExpr, paramExprs;
   templates/prologue/param_expr.go.tmpl). While the body templates are rendered, every
   user-provided expression they mention is recorded in a Go map keyed by the expression
   and replaced by the variable _<line>_<column>; afterwards the recorded expressions are
   sorted by source position and emitted, one assignment each, before the body.
   Expressions are identified by their position (a natural number: distinct argument
   expressions of a directive have distinct positions). Definitions only. *)
From Coq Require Export List Arith Bool Lia.
Export ListNotations.

(* sorted insertion without duplicates: the map de-duplicates, sort.Slice orders *)
Fixpoint insert_u (x : nat) (l : list nat) : list nat :=
  match l with
  | [] => [x]
  | y :: r => if x <? y then x :: l else if x =? y then l else y :: insert_u x r
  end.

(* uses: the expressions in the order in which the templates happened to mention them
   (any order, with repetitions - and Go's map iteration adds its own permutation) *)
Definition prologue (uses : list nat) : list nat := fold_right insert_u [] uses.

(* evaluating the prologue: each emitted assignment evaluates its expression once, in
   the order emitted; expressions have effects on a state *)
Section Eval.
  Variable state : Type.
  Variable effect : nat -> state -> state.      (* what evaluating the expression at a position does *)
  Definition eval_prologue (uses : list nat) (s : state) : state * list nat :=
    fold_left (fun acc p => (effect p (fst acc), snd acc ++ [p])) (prologue uses) (s, []).
  (* what the user wrote: the expressions in source order, each evaluated once *)
  Definition eval_source (exprs : list nat) (s : state) : state * list nat :=
    fold_left (fun acc p => (effect p (fst acc), snd acc ++ [p])) exprs (s, []).
End Eval.

(* the variable of an expression at line l, column c *)
Definition varname (l c : nat) : nat * nat := (l, c).
